package gen

import (
	"sort"
	"strings"

	"pgregory.net/rapid"

	"verifharness/internal/val"
)

// BuildExpr draws an expression (source text) that, evaluated in a core
// environment, constructs v along a randomly chosen construction path.
func BuildExpr(t *rapid.T, label string, v val.V) string {
	switch v.K {
	case val.Nil, val.Bool, val.Int, val.Str:
		return val.Literal(v)
	case val.Kw:
		if rapid.IntRange(0, 5).Draw(t, label+"kwc") == 0 {
			return "(keyword " + val.QuoteStr(v.S) + ")"
		}
		return val.Literal(v)
	case val.Sym:
		switch rapid.IntRange(0, 2).Draw(t, label+"syc") {
		case 0:
			return "'" + v.S
		case 1:
			return "(symbol " + val.QuoteStr(v.S) + ")"
		}
		return "(quote " + v.S + ")"
	case val.List:
		es := make([]string, len(v.L))
		for i, e := range v.L {
			es[i] = BuildExpr(t, label+"e", e)
		}
		if len(es) == 0 && rapid.Bool().Draw(t, label+"emptyl") {
			return rapid.SampledFrom([]string{"(list)", "(rest nil)", "(rest [1])", "(concat)", "(concat [] ())", "(take 0 [1])", "(drop 1 [1])", "(rest (list 1))", "(apply list [])"}).Draw(t, label+"emptylx")
		}
		c := rapid.IntRange(0, 6).Draw(t, label+"lc")
		switch {
		case c == 0:
			return val.Quoted(v)
		case c == 1 && len(es) >= 1:
			return "(cons " + es[0] + " (list " + strings.Join(es[1:], " ") + "))"
		case c == 2 && len(es) >= 2:
			k := rapid.IntRange(1, len(es)-1).Draw(t, label+"cut")
			return "(concat (list " + strings.Join(es[:k], " ") + ") [" + strings.Join(es[k:], " ") + "])"
		case c == 3:
			return "(rest (list 0 " + strings.Join(es, " ") + "))"
		case c == 4 && len(es) >= 1:
			return "(seq [" + strings.Join(es, " ") + "])"
		case c == 5:
			return "(map (fn (x) x) [" + strings.Join(es, " ") + "])"
		}
		return "(list " + strings.Join(es, " ") + ")"
	case val.Vec:
		es := make([]string, len(v.L))
		for i, e := range v.L {
			es[i] = BuildExpr(t, label+"e", e)
		}
		if len(es) == 0 && rapid.Bool().Draw(t, label+"emptyv") {
			return rapid.SampledFrom([]string{"(vector)", "(vec ())", "(vec [])", "(subvec [1] 0 0)", "(subvec [1] 1)", "(apply vector ())", "(vec (rest [1]))"}).Draw(t, label+"emptyvx")
		}
		c := rapid.IntRange(0, 5).Draw(t, label+"vc")
		switch {
		case c == 0:
			return val.Quoted(v)
		case c == 1:
			return "(vector " + strings.Join(es, " ") + ")"
		case c == 2:
			return "(vec (list " + strings.Join(es, " ") + "))"
		case c == 3 && len(es) >= 2:
			return "(conj [" + es[0] + "] " + strings.Join(es[1:], " ") + ")"
		}
		return "[" + strings.Join(es, " ") + "]"
	case val.Map:
		keys := make([]string, 0, len(v.M))
		for k := range v.M {
			keys = append(keys, k)
		}
		sort.Strings(keys)
		keys = rapid.Permutation(keys).Draw(t, label+"perm")
		kv := make([]string, 0, 2*len(keys))
		pairs := make([]string, len(keys))
		for i, k := range keys {
			e := BuildExpr(t, label+"mv", v.M[k])
			kv = append(kv, val.KeySource(k), e)
			pairs[i] = val.KeySource(k) + " " + e
		}
		if len(keys) == 0 && rapid.Bool().Draw(t, label+"emptym") {
			return rapid.SampledFrom([]string{"(hash-map)", "(dissoc {:a 1} :a)", "(merge {} nil)", "(dissoc (hash-map :a 1 :b 2) :b :a)", "(apply hash-map [])", "(dissoc {} :a)", "(merge {} {})"}).Draw(t, label+"emptymx")
		}
		c := rapid.IntRange(0, 6).Draw(t, label+"mc")
		switch {
		case c == 0:
			return val.Quoted(v)
		case c == 1 && len(keys) >= 1:
			return "(hash-map " + strings.Join(kv, " ") + ")"
		case c == 2 && len(keys) >= 1:
			out := "(hash-map)"
			for _, p := range pairs {
				out = "(assoc " + out + " " + p + ")"
			}
			return out
		case c == 3 && len(keys) >= 1:
			extra := "\"zz-extra\""
			if _, ok := v.M["zz-extra"]; ok {
				break
			}
			return "(dissoc {" + extra + " 1 " + strings.Join(pairs, " ") + "} " + extra + ")"
		case c == 4 && len(keys) >= 2:
			k := rapid.IntRange(1, len(keys)-1).Draw(t, label+"mcut")
			return "(merge {" + strings.Join(pairs[:k], " ") + "} {" + strings.Join(pairs[k:], " ") + "})"
		case c == 5 && len(keys) >= 1:
			// overwrite: first a wrong value, then the right one
			return "(assoc {" + val.KeySource(keys[0]) + " :zz-wrong} " + strings.Join(pairs, " ") + ")"
		}
		return "{" + strings.Join(pairs, " ") + "}"
	case val.Set:
		ks := rapid.Permutation(append([]string{}, v.St...)).Draw(t, label+"sperm")
		src := make([]string, len(ks))
		for i, k := range ks {
			src[i] = val.KeySource(k)
		}
		if len(src) == 0 && rapid.Bool().Draw(t, label+"emptys") {
			return rapid.SampledFrom([]string{"(set nil)", "(set [])", "(set ())", "(hash-set)", "(set (list))", "(apply hash-set [])", "(set (rest [1]))"}).Draw(t, label+"emptysx")
		}
		c := rapid.IntRange(0, 5).Draw(t, label+"sc")
		switch {
		case c == 0:
			return val.Quoted(v)
		case c == 1:
			return "(hash-set " + strings.Join(src, " ") + ")"
		case c == 2:
			return "(set [" + strings.Join(src, " ") + "])"
		case c == 3 && len(src) >= 1:
			return "(conj #{} " + strings.Join(src, " ") + ")"
		case c == 4 && len(src) >= 1:
			// duplicates collapse
			return "(hash-set " + strings.Join(src, " ") + " " + src[0] + ")"
		}
		return "#{" + strings.Join(src, " ") + "}"
	}
	panic("BuildExpr: kind " + v.K.String())
}

// Mutate returns a value that differs from v in exactly one place (at a random
// position of the tree) by one of the near-equal substitutions the properties name.
// ok=false when no mutation applies (never for the kinds generated here).
func Mutate(t *rapid.T, label string, v val.V, o Opts) val.V {
	// descend with probability proportional to having children
	switch v.K {
	case val.List, val.Vec:
		if len(v.L) > 0 && rapid.IntRange(0, 3).Draw(t, label+"desc") > 0 {
			i := rapid.IntRange(0, len(v.L)-1).Draw(t, label+"i")
			out := val.V{K: v.K, L: append([]val.V{}, v.L...)}
			out.L[i] = Mutate(t, label+"m", v.L[i], o)
			return out
		}
	case val.Map:
		if len(v.M) > 0 && rapid.IntRange(0, 3).Draw(t, label+"desc") > 0 {
			keys := make([]string, 0, len(v.M))
			for k := range v.M {
				keys = append(keys, k)
			}
			sort.Strings(keys)
			k := rapid.SampledFrom(keys).Draw(t, label+"k")
			m := map[string]val.V{}
			for kk, vv := range v.M {
				m[kk] = vv
			}
			m[k] = Mutate(t, label+"m", v.M[k], o)
			return val.M(m)
		}
	}
	return mutateHere(t, label, v, o)
}

func mutateHere(t *rapid.T, label string, v val.V, o Opts) val.V {
	c := rapid.IntRange(0, 3).Draw(t, label+"how")
	switch v.K {
	case val.Nil:
		return rapid.SampledFrom([]val.V{val.B(false), val.L(), val.I(0), val.S(""), val.Vc()}).Draw(t, label+"nn")
	case val.Bool:
		if c == 0 {
			return val.N()
		}
		return val.B(!v.B)
	case val.Int:
		switch c {
		case 0:
			return val.I(v.I + 1)
		case 1:
			return val.S(val.Literal(v))
		case 2:
			if v.I == 0 {
				return val.N()
			}
			return val.I(-v.I)
		}
		return val.I(v.I - 1)
	case val.Str:
		switch c {
		case 0:
			return val.K(kwSafe(v.S))
		case 1:
			if IsSymbolName(v.S) && o.Syms {
				return val.Y(v.S)
			}
			return val.S(v.S + "x")
		case 2:
			if v.S == "" {
				return val.N()
			}
			return val.S(v.S[:len(v.S)-1] + "")
		}
		return val.S(v.S + " ")
	case val.Kw:
		switch c {
		case 0:
			return val.S(v.S)
		case 1:
			if IsSymbolName(v.S) && o.Syms {
				return val.Y(v.S)
			}
			return val.S(":" + v.S)
		}
		return val.K(v.S + "x")
	case val.Sym:
		switch c {
		case 0:
			return val.S(v.S)
		case 1:
			return val.K(kwSafe(v.S))
		}
		return val.Y(v.S + "x")
	case val.List, val.Vec:
		switch c {
		case 0: // drop last / add nil
			if len(v.L) > 0 {
				return val.V{K: v.K, L: append([]val.V{}, v.L[:len(v.L)-1]...)}
			}
			return val.V{K: v.K, L: []val.V{val.N()}}
		case 1: // append nil
			return val.V{K: v.K, L: append(append([]val.V{}, v.L...), val.N())}
		case 2: // swap two elements
			if len(v.L) >= 2 && !val.Eq(v.L[0], v.L[len(v.L)-1]) {
				out := append([]val.V{}, v.L...)
				out[0], out[len(out)-1] = out[len(out)-1], out[0]
				return val.V{K: v.K, L: out}
			}
			return val.V{K: v.K, L: append(append([]val.V{}, v.L...), val.I(0))}
		}
		if len(v.L) == 0 {
			return val.N()
		}
		return val.V{K: v.K, L: append([]val.V{val.N()}, v.L...)}
	case val.Map:
		m := map[string]val.V{}
		for k, e := range v.M {
			m[k] = e
		}
		keys := make([]string, 0, len(m))
		for k := range m {
			keys = append(keys, k)
		}
		sort.Strings(keys)
		switch {
		case c == 0 && len(keys) > 0: // remove a key
			delete(m, keys[0])
		case c == 1 && len(keys) > 0: // replace a key by another key holding nil (same size!)
			delete(m, keys[0])
			nk := "zz-other"
			for {
				if _, ok := m[nk]; !ok && nk != keys[0] {
					break
				}
				nk += "z"
			}
			m[nk] = val.N()
		case c == 2 && len(keys) > 0: // keyword <-> string key of same spelling
			k := keys[len(keys)-1]
			e := m[k]
			var nk string
			if strings.HasPrefix(k, val.KwMark) {
				nk = k[len(val.KwMark):]
			} else {
				nk = val.KwMark + kwSafe(k)
			}
			if _, ok := m[nk]; ok || nk == k || strings.HasPrefix(nk, val.KwMark) && !isKwName(nk[len(val.KwMark):]) {
				m["zz-added"] = val.N()
			} else {
				delete(m, k)
				m[nk] = e
			}
		default: // add a key holding nil
			nk := val.KwMark + "zz-added"
			for {
				if _, ok := m[nk]; !ok {
					break
				}
				nk += "z"
			}
			m[nk] = val.N()
		}
		return val.M(m)
	case val.Set:
		ks := append([]string{}, v.St...)
		if c == 0 && len(ks) > 0 {
			return val.SetOf(ks[1:]...)
		}
		if c == 1 && len(ks) > 0 {
			return val.SetOf(append(ks[1:], "zz-other")...)
		}
		if c == 2 {
			// a set vs a map with the same keys / a vector with the same members
			xs := make([]val.V, len(ks))
			for i, k := range ks {
				xs[i] = val.FromKey(k)
			}
			return val.Vc(xs...)
		}
		return val.SetOf(append(ks, val.KwMark+"zz-added")...)
	}
	return val.N()
}

func isKwName(s string) bool {
	for _, r := range s {
		if !(isIdentStart(r) || r == '$' || r == '-' || (r >= '0' && r <= '9')) {
			return false
		}
	}
	return true
}

// kwSafe maps an arbitrary string to a keyword name the scanner can read.
func kwSafe(s string) string {
	if isKwName(s) {
		return s
	}
	var sb strings.Builder
	for _, r := range s {
		if isIdentStart(r) || r == '-' || (r >= '0' && r <= '9') {
			sb.WriteRune(r)
		}
	}
	return sb.String()
}
