package gen

import (
	"strings"

	"pgregory.net/rapid"
)

var soupTokens = []string{
	"(", ")", "[", "]", "{", "}", "#{", "«", "»", "'", "`", "~", "~@", "^", "@",
	"a", "b", "foo", "+", "-", "->", "nil", "true", "false", "&", "%", ".", ",", "#", "|", "\\",
	":k", ":", ":a-b", "::", "0", "1", "-1", "42", "0x1F", "0b101", "0o17", "017", "1_000", "9223372036854775807", "9223372036854775808", "-9223372036854775808", "1e3", "1.5", ".5", "0x", "1__0", "08",
	"\"\u029e \"", "\"\u029ea b\"", "\"\u029e\"", "\"\u029e(\"", " \ufeff", "\ufeff", "a\ufeffb",
	`""`, `"s"`, `"a\"b"`, `"a\\"`, `"\n"`, `"unterminated`, `"`, `"\q"`, `"\x41"`, `"é"`,
	"¬", "¬¬", "¬raw¬", "¬a¬¬b¬", "¬{\"k\": 1}¬", "¬unterminated", "¬\n¬",
	"$x", "$1", "$", "$MODULE", "$a-b_c", "-$x",
	";; $MODULE m", ";; $MODULE ", ";; $x 1", ";; $x", ";; $", ";;", "; c",
	"; comment\n", ";; $x 1\n", ";; $MODULE m\n", ";", ";; $a $b\n", ";; $x\n", ";; x 1\n",
	"\n", "\r\n", "\t", " ", "  ", "\x00", "\xff", "\xc3", "\xef\xbb\xbf", "ʞ", "ʞkw", "é", "世", "λ",
	"(+ 1 2)", "[1 2]", "{:a 1}", "#{:a}", "(def a 1)", "'x", "^{:m 1} [1]", "@a", "`(~a ~@b)", "«atom 1»", "«»", "«1»", "«foo»", "«nil»", "«nil 1 2»", "«$T 1»", "«atom «nil»»", "«\"s\" 1»", "«[a]»", "«:k»", ";; $A «nil»\n", "«atom $x»", "«point $x $x»", "«point 1 2»", "«point»", "«twice 1»", "«limit»", "«nothing»", "«vec 1»", "«str»", "«kw 1»", "«map :a»", "«point 1 2 3»", "'«point 1 2»", "[«limit» «twice «point 1 2»»]", "{:a}", "{1 2}", "#{1}",
}

var macroPrefixes = []string{"'", "`", "~", "~@", "@", "^{:a 1}", "^m", "^:k", "^#{\"x\"}", "^$x", "^[1]", "^\"s\"", "^nil", "^()", "^{}", "^1", "^(f)", "^'q", "^«nil»", "^", "^^"}
var macroTargets = []string{"x", "[1 2]", "(f)", "{}", "$x", "(with-meta x (meta y))", "(with-meta x)", "(with-meta)", "+", "(fn [] 1)", "#{}", "\"s\"", "nil", "", ")", "(with-meta x y z)", "(with-meta x 1)", "(quote x)", "(deref)"}

// Soup draws a byte string made of reader tokens, delimiters, comments, preamble lines,
// invalid UTF-8 and NULs, optionally truncated anywhere.
func Soup(t *rapid.T, label string) string {
	n := rapid.IntRange(0, 12).Draw(t, label+"n")
	var sb strings.Builder
	for i := 0; i < n; i++ {
		switch rapid.IntRange(0, 9).Draw(t, label+"k") {
		case 0:
			sb.WriteString(Str(t, label+"str", Opts{Str: StrFull}))
		case 1:
			sb.WriteString(val_quote(Str(t, label+"qs", Opts{Str: StrHot})))
		case 2:
			sb.WriteString(string(rapid.SliceOfN(rapid.Byte(), 0, 4).Draw(t, label+"bytes")))
		case 3:
			// a string literal that begins with the keyword marker: reads as a keyword of arbitrary name
			sb.WriteString(val_quote("\u029e" + Str(t, label+"kwstr", Opts{Str: StrFull, NoNUL: true})))
		case 4:
			// stacked reader macros: 1-3 prefixes (metadata of every kind of form among them) and then a form
			for j, m := 0, 1+rapid.IntRange(0, 2).Draw(t, label+"nmac"); j < m; j++ {
				sb.WriteString(rapid.SampledFrom(macroPrefixes).Draw(t, label+"mac"))
				sb.WriteByte(' ')
			}
			sb.WriteString(rapid.SampledFrom(macroTargets).Draw(t, label+"mact"))
		default:
			sb.WriteString(rapid.SampledFrom(soupTokens).Draw(t, label+"tok"))
		}
		if rapid.IntRange(0, 3).Draw(t, label+"sp") > 0 {
			sb.WriteByte(' ')
		}
	}
	s := sb.String()
	if len(s) > 0 && rapid.IntRange(0, 3).Draw(t, label+"cut") == 0 {
		s = s[:rapid.IntRange(0, len(s)).Draw(t, label+"cutat")]
	}
	return s
}

func val_quote(s string) string {
	var sb strings.Builder
	sb.WriteByte('"')
	for _, r := range s {
		switch r {
		case '\\':
			sb.WriteString(`\\`)
		case '"':
			sb.WriteString(`\"`)
		case '\n':
			sb.WriteString(`\n`)
		default:
			sb.WriteRune(r)
		}
	}
	sb.WriteByte('"')
	return sb.String()
}
