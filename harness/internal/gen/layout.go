package gen

import (
	"sort"
	"strings"

	"pgregory.net/rapid"

	"verifharness/internal/val"
)

// Tok is one source token of a rendered form.
type Tok struct {
	Text  string
	Open  bool // opening bracket (no separator needed after it)
	Close bool // closing bracket (no separator needed before it)
	Macro bool // reader macro character (no separator needed after it)
}

// Tokens flattens a form into source tokens. short: use ' ` ~ ~@ spellings.
func Tokens(v val.V, short bool) []Tok { return TokensRaw(v, short, false) }

// TokensRaw is Tokens; with raw, string literals that hold a line break are written in raw (¬…¬) form with the
// line break as it is, so that the token spans several source lines.
func TokensRaw(v val.V, short, raw bool) []Tok {
	out := []Tok{}
	var w func(v val.V)
	w = func(v val.V) {
		switch v.K {
		case val.List, val.Vec:
			if short && v.K == val.List && len(v.L) == 2 && v.L[0].K == val.Sym {
				m := map[string]string{"quote": "'", "quasiquote": "`", "unquote": "~", "splice-unquote": "~@", "deref": "@"}[v.L[0].S]
				if m != "" {
					out = append(out, Tok{Text: m, Macro: true})
					w(v.L[1])
					return
				}
			}
			o, c := "(", ")"
			if v.K == val.Vec {
				o, c = "[", "]"
			}
			out = append(out, Tok{Text: o, Open: true})
			for _, e := range v.L {
				w(e)
			}
			out = append(out, Tok{Text: c, Close: true})
		case val.Map:
			keys := make([]string, 0, len(v.M))
			for k := range v.M {
				keys = append(keys, k)
			}
			sort.Strings(keys)
			out = append(out, Tok{Text: "{", Open: true})
			for _, k := range keys {
				out = append(out, Tok{Text: val.KeySource(k)})
				w(v.M[k])
			}
			out = append(out, Tok{Text: "}", Close: true})
		case val.Set:
			out = append(out, Tok{Text: "#{", Open: true})
			for _, k := range v.St {
				out = append(out, Tok{Text: val.KeySource(k)})
			}
			out = append(out, Tok{Text: "}", Close: true})
		default:
			if raw && v.K == val.Str && strings.ContainsAny(v.S, "\n\r") && !strings.Contains(v.S, "¬") && !strings.ContainsRune(v.S, 0) {
				out = append(out, Tok{Text: "¬" + v.S + "¬"})
				return
			}
			out = append(out, Tok{Text: val.Literal(v)})
		}
	}
	w(v)
	return out
}

var seps = []string{" ", " ", " ", "  ", "\t", "\n", "\n", "\r\n", "\n\n", " ; comment\n", "\n;; $x 1\n", " ;( unbalanced ] \" comment\r\n", "\n  ", " ;\n", ";glued comment ) ] }\n", ";(\n", ";\n"}

// Sep draws a separator; must=false allows the empty separator.
func Sep(t *rapid.T, must bool) string {
	if !must && rapid.IntRange(0, 2).Draw(t, "nosep") > 0 {
		return ""
	}
	return rapid.SampledFrom(seps).Draw(t, "sep")
}

// Trailers are the ways a text may end.
var Trailers = []string{"", "\n", "\r\n", "\n\n", " ; trailing comment without newline", "\n; trailing comment\n", " ;", "  "}

// Layout renders tokens with generated separators. It returns the text and, per
// token, the 1-based line on which it starts.
func Layout(t *rapid.T, toks []Tok) (string, []int) {
	var sb strings.Builder
	lines := make([]int, len(toks))
	line := 1
	write := func(s string) {
		sb.WriteString(s)
		line += strings.Count(s, "\n")
	}
	for i, tk := range toks {
		if i > 0 {
			prev := toks[i-1]
			must := !(prev.Open || prev.Macro || tk.Close)
			// "~" followed by "@..." would fuse into "~@": keep a separator there
			if prev.Text == "~" && strings.HasPrefix(tk.Text, "@") {
				must = true
			}
			write(Sep(t, must))
		}
		lines[i] = line
		write(tk.Text)
	}
	return sb.String(), lines
}

// Plain renders tokens with single spaces (canonical layout).
func Plain(toks []Tok) string {
	var sb strings.Builder
	for i, tk := range toks {
		if i > 0 {
			prev := toks[i-1]
			if !(prev.Open || prev.Macro || tk.Close) {
				sb.WriteByte(' ')
			}
		}
		sb.WriteString(tk.Text)
	}
	return sb.String()
}
