// Package gen holds the rapid generators shared by the property packages.
package gen

import (
	"math"
	"strings"
	"unicode"

	"pgregory.net/rapid"

	"verifharness/internal/val"
)

// StrMode selects the alphabet of generated strings.
type StrMode int

const (
	StrPlain StrMode = iota // letters, digits, space, a few safe punctuation marks
	StrHot                  // + quotes, backslashes, newlines, brackets, ; $ ¬ JSON-looking
	StrFull                 // + arbitrary Unicode scalar values (minus the classes excluded by the caller)
)

// Opts controls the data generator.
type Opts struct {
	Str      StrMode
	Syms     bool // allow symbols as data
	MaxDepth int
	NoKwMark bool // never put U+029E inside strings
	NoNUL    bool // never put U+0000 inside strings
	NoSets   bool
	NoMaps   bool
	SmallInt bool
}

var hotRunes = []rune{'"', '\\', '\n', '\r', '\t', '¬', '{', '}', ';', '$', '(', ')', '[', ']', '~', '@', '^', '\'', '`', ':', '#', '«', '»', ' ', ',', 0xFEFF, 'n', 'é', '世', 0x1F600, '€', 'ì', '笑', 0xAC, 0xC2, 0x29e + 64, 0xA0, 0x7f, 0x1b, '²', '½', 'Ⅷ', '①', '٣', '፩', '_', '-'}

var hotStrings = []string{
	`{"k": "v"}`, "{\"k\":\n 1}", `{"a¬b"}`, `{"`, `"}`, `{"}`, ";; $x 1", "$x", "$1", `\n`, `\\`, `\"`, `\`, "¬¬", "¬", "a\\", "\\\"", "nil", "true", "(+ 1 2)", "; c", "\r\n", `{"x": "¬"}`, "{\"k\": \"v\"}\n",
}

// Str draws one string.
func Str(t *rapid.T, label string, o Opts) string {
	switch o.Str {
	case StrPlain:
		return rapid.StringOfN(rapid.RuneFrom([]rune("abcxyzABC019 _-+*/<>=!?.")), 0, 6, -1).Draw(t, label)
	}
	n := rapid.IntRange(0, 6).Draw(t, label+"#")
	var sb strings.Builder
	// JSON-looking wrapper around arbitrary content: the shape that switches the printer to raw form
	jsonish := rapid.IntRange(0, 7).Draw(t, label+"json") == 7
	if jsonish {
		sb.WriteString(`{"`)
	}
	for i := 0; i < n; i++ {
		c := rapid.IntRange(0, 9).Draw(t, label+"c")
		switch {
		case c <= 3:
			sb.WriteRune(rapid.RuneFrom([]rune("abcxyz019 ")).Draw(t, label+"r"))
		case c <= 6:
			sb.WriteRune(rapid.SampledFrom(hotRunes).Draw(t, label+"h"))
		case c <= 7:
			sb.WriteString(rapid.SampledFrom(hotStrings).Draw(t, label+"s"))
		default:
			if o.Str == StrFull {
				r := rapid.Rune().Draw(t, label+"u")
				sb.WriteRune(r)
			} else {
				sb.WriteRune(rapid.SampledFrom(hotRunes).Draw(t, label+"h"))
			}
		}
	}
	if jsonish {
		sb.WriteString(rapid.SampledFrom([]string{`"}`, `}`, `": 1}`, `"]}`}).Draw(t, label+"jend"))
	}
	// the two documented-excluded classes are planted explicitly so that callers
	// which keep them see them often
	if !o.NoKwMark && rapid.IntRange(0, 19).Draw(t, label+"k") == 0 {
		pos := rapid.IntRange(0, 2).Draw(t, label+"kp")
		s := sb.String()
		switch pos {
		case 0:
			// a string must not begin with the marker: that would be a keyword
			sb.WriteString(val.KwMark)
		case 1:
			sb.Reset()
			sb.WriteString("a" + val.KwMark + s)
		default:
			sb.WriteString("\\" + val.KwMark)
		}
	}
	if !o.NoNUL && rapid.IntRange(0, 29).Draw(t, label+"z") == 0 {
		sb.WriteRune(0)
	}
	s := sb.String()
	if o.NoKwMark {
		s = strings.ReplaceAll(s, val.KwMark, "k")
	}
	if o.NoNUL {
		s = strings.ReplaceAll(s, "\x00", "0")
	}
	// a value that begins with the marker is a keyword in this data model, not a string
	for strings.HasPrefix(s, val.KwMark) {
		s = "s" + s
	}
	s = strings.ToValidUTF8(s, "?")
	return s
}

var identStart = []rune("abcdefxyzXYZ_*+/?!<>=λé\u029e")
var identLater = []rune("abcxyzXYZ_*+/?!<>=λé\u029e0123456789-$")

func isIdentStart(r rune) bool {
	return r == '_' || r == '*' || r == '+' || r == '/' || r == '?' || r == '!' || r == '<' || r == '>' || r == '=' || unicode.IsLetter(r)
}

// IsSymbolName restates the scanner's rule for "one Ident token that reads as a symbol".
func IsSymbolName(s string) bool {
	if s == "" || s == "nil" || s == "true" || s == "false" {
		return false
	}
	rs := []rune(s)
	i := 0
	if rs[0] == '-' {
		if len(rs) == 1 {
			return true
		}
		if !isIdentStart(rs[1]) && rs[1] != '$' {
			return false
		}
		i = 1
	} else if !isIdentStart(rs[0]) {
		return false
	}
	for j := i + 1; j < len(rs); j++ {
		r := rs[j]
		if !(isIdentStart(r) || r == '$' || r == '-' || unicode.IsDigit(r)) {
			return false
		}
	}
	return true
}

// Ident draws a symbol name accepted by the scanner as one identifier token.
func Ident(t *rapid.T, label string) string {
	c := rapid.IntRange(0, 19).Draw(t, label+"c")
	if c == 0 {
		return rapid.SampledFrom([]string{"&", "%", "|", "\\", ",", ".", "#", "-"}).Draw(t, label+"1")
	}
	var sb strings.Builder
	if c == 1 {
		sb.WriteRune('-')
	}
	sb.WriteRune(rapid.RuneFrom(identStart).Draw(t, label+"s"))
	n := rapid.IntRange(0, 4).Draw(t, label+"n")
	for i := 0; i < n; i++ {
		sb.WriteRune(rapid.RuneFrom(identLater).Draw(t, label+"l"))
	}
	s := sb.String()
	if s == "nil" || s == "true" || s == "false" {
		s += "_"
	}
	return s
}

// KwName draws a keyword name: a possibly empty run of later-position identifier runes.
func KwName(t *rapid.T, label string) string {
	c := rapid.IntRange(0, 9).Draw(t, label+"c")
	if c <= 5 {
		return rapid.SampledFrom([]string{"a", "b", "c", "k", "key", "x"}).Draw(t, label+"f")
	}
	n := rapid.IntRange(0, 4).Draw(t, label+"n")
	var sb strings.Builder
	for i := 0; i < n; i++ {
		sb.WriteRune(rapid.RuneFrom(identLater).Draw(t, label+"l"))
	}
	return sb.String()
}

// Int draws an integer, boundaries included.
func Int(t *rapid.T, label string, small bool) int {
	if small {
		return rapid.IntRange(-3, 9).Draw(t, label)
	}
	c := rapid.IntRange(0, 9).Draw(t, label+"c")
	switch {
	case c <= 5:
		return rapid.IntRange(-5, 20).Draw(t, label)
	case c <= 7:
		return rapid.SampledFrom([]int{0, 1, -1, math.MaxInt64, math.MinInt64, math.MaxInt32, math.MinInt32, 255, 1 << 40, 8, 9, 10, 16,
			1 << 53, 1<<53 + 1, -(1 << 53) - 1, 1 << 62, math.MaxInt64 - 1, 1<<24 + 1, 1 << 24}).Draw(t, label+"b")
	default:
		return rapid.Int().Draw(t, label)
	}
}

// Key draws a map key / set member (string or keyword) as the interpreter's key string.
func Key(t *rapid.T, label string, o Opts) string {
	if rapid.IntRange(0, 2).Draw(t, label+"k") > 0 {
		return val.KwMark + KwName(t, label+"kw")
	}
	return Str(t, label+"s", o)
}

// Scalar draws a non-collection value.
func Scalar(t *rapid.T, label string, o Opts) val.V {
	max := 5
	if o.Syms {
		max = 6
	}
	switch rapid.IntRange(0, max).Draw(t, label+"k") {
	case 0:
		return val.N()
	case 1:
		return val.B(rapid.Bool().Draw(t, label+"b"))
	case 2, 3:
		return val.I(Int(t, label+"i", o.SmallInt))
	case 4:
		return val.S(Str(t, label+"s", o))
	case 5:
		return val.K(KwName(t, label+"kw"))
	default:
		return val.Y(Ident(t, label+"y"))
	}
}

// Data draws a data value of nesting depth at most depth.
func Data(t *rapid.T, label string, depth int, o Opts) val.V {
	if depth <= 0 || rapid.IntRange(0, 9).Draw(t, label+"leaf") < 4 {
		return Scalar(t, label, o)
	}
	kind := rapid.IntRange(0, 5).Draw(t, label+"coll")
	n := rapid.IntRange(0, 3).Draw(t, label+"n")
	switch kind {
	case 0, 1:
		xs := make([]val.V, n)
		for i := range xs {
			xs[i] = Data(t, label+"e", depth-1, o)
		}
		return val.V{K: val.List, L: xs}
	case 2, 3:
		xs := make([]val.V, n)
		for i := range xs {
			xs[i] = Data(t, label+"e", depth-1, o)
		}
		return val.V{K: val.Vec, L: xs}
	case 4:
		if o.NoMaps {
			return Scalar(t, label, o)
		}
		m := map[string]val.V{}
		for i := 0; i < n; i++ {
			m[Key(t, label+"mk", o)] = Data(t, label+"mv", depth-1, o)
		}
		return val.M(m)
	default:
		if o.NoSets {
			return Scalar(t, label, o)
		}
		ks := make([]string, n)
		for i := range ks {
			ks[i] = Key(t, label+"sk", o)
		}
		return val.SetOf(ks...)
	}
}
