package gen

import (
	"pgregory.net/rapid"

	"verifharness/internal/val"
)

// Ty is the simple type discipline that keeps generated programs running deep.
type Ty int

const (
	TInt Ty = iota
	TBool
	TList // list or vector of ints
	TFn   // int -> int
	TAny
	tRec   // recursion template function: int -> int, only called with small arguments
	tRecC0 // (r n acc) -> list of zero-argument closures, one per iteration
	tRecC1 // (r n acc) -> list of one-argument closures, one per iteration
)

// PFlags selects the constructs the program generator may use.
type PFlags struct {
	Try       bool // try/catch/finally/throw
	Lib       bool // cond and or -> ->> (core + extended library needed)
	Cond      bool // cond only (core library)
	Sentinels bool // raise-go! panic-go! panic-val!
	QQ        bool // quasiquote templates
	Macros    bool // defmacro + macro calls
	MaxDepth  int
	Budget    int
	NoFaults  bool
	MaxRec    int // largest argument given to recursion templates
	Atoms     bool // atoms in throw points (an update function that re-sets its atom and then throws)
	Bulk      bool // now and then one data-heavy form (hundreds of reader-macro shorthands in one text)
	HotStr    bool // string literals over the hot alphabet (tab, CR, quotes, JSON-looking multi-line text …) instead of plain ones
	Malformed bool // malformed special forms among the planted faults (unspecified by the reference interpreter: differential use only)
	FnEq      bool // = applied to functions (the reference interpreter leaves it unspecified: only for differential use between routes)
}

type tvar struct {
	name string
	ty   Ty
}

type scope []tvar

func (s scope) visible() map[string]Ty {
	m := map[string]Ty{}
	for _, v := range s {
		m[v.name] = v.ty
	}
	return m
}

func (s scope) of(ty Ty) []string {
	vis := s.visible()
	seen := map[string]bool{}
	out := []string{}
	for i := len(s) - 1; i >= 0; i-- {
		n := s[i].name
		if seen[n] {
			continue
		}
		seen[n] = true
		if vis[n] == ty {
			out = append(out, n)
		}
	}
	// deterministic order for rapid
	for i, j := 0, len(out)-1; i < j; i, j = i+1, j-1 {
		out[i], out[j] = out[j], out[i]
	}
	return out
}

func (s scope) shadows(name string) bool {
	_, ok := s.visible()[name]
	return ok
}

func (s scope) with(vs ...tvar) scope {
	out := make(scope, 0, len(s)+len(vs))
	out = append(out, s...)
	return append(out, vs...)
}

type pg struct {
	t          *rapid.T
	f          PFlags
	trace      int
	budget     int
	inTry      int
	macros     []macroInfo
	uses       map[string]bool
	faults     int
	faultsLeft int
}

type macroInfo struct {
	name  string
	arity int
}

// Prog is a generated program: top-level forms, evaluated in order.
type Prog struct {
	Forms  []val.V
	Uses   map[string]bool // constructs used (for the non-triviality rule and labels)
	Faults int
}

func sym(s string) val.V { return val.Y(s) }
func call(h string, a ...val.V) val.V {
	return val.V{K: val.List, L: append([]val.V{val.Y(h)}, a...)}
}
func lst(a ...val.V) val.V { return val.V{K: val.List, L: append([]val.V{}, a...)} }

func (g *pg) pick(label string, n int) int        { return rapid.IntRange(0, n-1).Draw(g.t, label) }
func (g *pg) chance(label string, oneIn int) bool { return Chance(g.t, label, oneIn) }

// Uniform draws an index in [0,n) with (nearly) equal probabilities; rapid's own integer
// generators favour small values strongly. The shrink target is index 0.
func Uniform(t *rapid.T, label string, n int) int {
	x := rapid.Uint64().Draw(t, label)
	if x == 0 || n <= 1 {
		return 0
	}
	x ^= x >> 33
	x *= 0xff51afd7ed558ccd
	x ^= x >> 33
	x *= 0xc4ceb9fe1a85ec53
	x ^= x >> 33
	return int(x % uint64(n))
}

// Chance is true with probability ~1/oneIn. rapid's integer generators are heavily
// biased towards small values (0 comes up ~10% of the time in IntRange(0,299)), so the
// draw is mixed before it is reduced; the shrink target (0) means "no event".
func Chance(t *rapid.T, label string, oneIn int) bool {
	x := rapid.Uint64().Draw(t, label)
	if x == 0 || oneIn <= 0 {
		return false
	}
	x ^= x >> 33
	x *= 0xff51afd7ed558ccd
	x ^= x >> 33
	x *= 0xc4ceb9fe1a85ec53
	x ^= x >> 33
	return x%uint64(oneIn) == uint64(oneIn-1)
}
func (g *pg) use(s string) { g.uses[s] = true }

var localNames = []string{"a", "b", "c", "x", "y", "n"}

func (g *pg) localName() string { return rapid.SampledFrom(localNames).Draw(g.t, "lname") }

func (g *pg) nextTrace() val.V {
	g.trace++
	return val.I(100 + g.trace)
}

// Program draws a whole program.
func Program(t *rapid.T, f PFlags) Prog {
	if f.MaxDepth == 0 {
		f.MaxDepth = 7
	}
	if f.Budget == 0 {
		f.Budget = 70
	}
	if f.MaxRec == 0 {
		f.MaxRec = 6
	}
	g := &pg{t: t, f: f, budget: f.Budget, uses: map[string]bool{}}
	if !f.NoFaults && Chance(t, "faulty-program", 4) {
		g.faultsLeft = 1
	}
	var sc scope
	forms := []val.V{}
	ndefs := rapid.IntRange(0, 3).Draw(t, "ndefs")
	for i := 0; i < ndefs; i++ {
		switch g.pick("defkind", 6) {
		case 0, 1:
			fs, v := g.recTemplate(i, sc)
			forms = append(forms, fs...)
			sc = sc.with(v...)
		case 2:
			name := []string{"g1", "g2", "g3"}[i]
			forms = append(forms, call("def", sym(name), g.expr(TFn, 3, sc)))
			sc = sc.with(tvar{name, TFn})
		case 3:
			name := []string{"k1", "k2", "k3"}[i]
			forms = append(forms, call("def", sym(name), g.expr(TInt, 3, sc)))
			sc = sc.with(tvar{name, TInt})
		case 4:
			name := []string{"l1", "l2", "l3"}[i]
			forms = append(forms, call("def", sym(name), g.expr(TList, 3, sc)))
			sc = sc.with(tvar{name, TList})
		default:
			if g.f.Macros {
				if f, m, ok := g.macroDef(i, sc); ok {
					forms = append(forms, f)
					g.macros = append(g.macros, m)
					break
				}
			}
			name := localNames[i]
			forms = append(forms, call("def", sym(name), g.expr(TAny, 3, sc)))
			sc = sc.with(tvar{name, TAny})
		}
	}
	// a closure with a persistent private scope that reads a global; the global is re-defined
	// between two calls (a binding is looked up when it is used, not when the closure was made)
	if Chance(t, "global-redef", 4) {
		g.use("global-redefinition")
		g.use("closure-capture")
		k, gn := "kr", "gr"
		forms = append(forms, call("def", sym(k), val.I(g.pick("kr0", 9))))
		body := call("+", sym("a"), call("+", sym(k), sym("c")))
		switch g.pick("redefkind", 5) {
		case 3: // (let (kr kr) …): the closure keeps the value the global had when the let ran
			forms = append(forms, call("def", sym(gn), call("let", lst(sym(k), sym(k)), call("fn", lst(sym("a")), call("+", sym("a"), sym(k))))))
		case 4: // the same through a parameter that is re-defined inside the function after the closure was made
			forms = append(forms, call("def", sym(gn), lst(call("fn", lst(sym("p")),
				call("let", lst(sym("q"), call("let", lst(sym("p"), sym("p")), call("fn", lst(sym("a")), call("+", sym("a"), sym("p"))))),
					call("def", sym("p"), val.I(700)), sym("q"))), sym(k))))
		case 0:
			forms = append(forms, call("def", sym(gn), call("let", lst(sym("c"), val.I(g.pick("c0", 5))), call("fn", lst(sym("a")), body))))
		case 1:
			forms = append(forms, call("def", sym("mkr"), call("fn", lst(sym("c")), call("fn", lst(sym("a")), body))),
				call("def", sym(gn), call("mkr", val.I(g.pick("c1", 5)))))
		default:
			forms = append(forms, call("def", sym(gn), call("let", lst(sym("c"), val.I(1)), call("fn", lst(sym("a")), call("do", call("trace!", sym(k)), body)))))
		}
		forms = append(forms, call("trace!", call(gn, val.I(1))))
		forms = append(forms, call("def", sym(k), val.I(10+g.pick("kr1", 9))))
		forms = append(forms, call("trace!", call(gn, val.I(1))))
		sc = sc.with(tvar{k, TInt}, tvar{gn, TFn})
	}
	// a function that calls itself by its global name is kept under another name while the name is
	// re-defined: the old function's self call reaches the NEW definition (the name is looked up when used)
	if Chance(t, "self-redef", 6) {
		g.use("global-redefinition")
		g.use("self-name-redefinition")
		n := sym("n")
		forms = append(forms, call("def", sym("sr"), call("fn", lst(n), call("if", call("<", n, val.I(1)), val.I(0), call("+", val.I(1), call("sr", call("-", n, val.I(1))))))))
		switch g.pick("selfalias", 3) {
		case 0:
			forms = append(forms, call("def", sym("sa"), sym("sr")))
		case 1:
			forms = append(forms, call("def", sym("sa"), call("let", lst(sym("q"), sym("sr")), sym("q"))))
		default:
			forms = append(forms, call("def", sym("sa"), call("first", call("list", sym("sr")))))
		}
		forms = append(forms, call("trace!", call("sa", val.I(2))))
		forms = append(forms, call("def", sym("sr"), call("fn", lst(n), val.I(100+g.pick("sr1", 9)))))
		forms = append(forms, call("trace!", call("sa", val.I(2))))
	}
	// a closure made in a let reads a name that a nested let in tail position (directly, or through do / if / the
	// body of a called function) binds again, or defines: every let has a scope of its own
	if Chance(t, "tail-let", 5) {
		g.use("tail-let-rebinding")
		g.use("closure-capture")
		x, f := sym("x"), sym("f")
		e1, e2 := g.leaf(TInt, sc), val.I(20+g.pick("tl2", 9))
		var inner val.V
		switch g.pick("tlinner", 4) {
		case 3:
			// a let without bindings still has a scope of its own
			inner = call("let", lst(), call("def", x, e2), call("list", x, lst(f)))
		case 0:
			inner = call("let", lst(x, e2), call("list", x, lst(f)))
		case 1:
			inner = call("let", lst(sym("y"), e2), call("def", x, sym("y")), call("list", x, lst(f)))
		default:
			inner = call("let", lst(x, call("+", x, val.I(1))), call("let", lst(x, call("+", x, val.I(1))), call("list", x, lst(f))))
		}
		switch g.pick("tlvia", 4) {
		case 1:
			inner = call("do", call("trace!", g.nextTrace()), inner)
		case 2:
			inner = call("if", val.B(true), inner, val.I(0))
		case 3:
			inner = call("cond", val.B(false), val.I(0), val.B(true), inner)
		}
		outer := call("let", lst(x, e1, f, call("fn", lst(), x)), inner)
		if g.chance("tlfn", 3) {
			// the outer scope is the body of a called function
			outer = lst(call("fn", lst(x), call("let", lst(f, call("fn", lst(), x)), inner)), e1)
		}
		forms = append(forms, call("trace!", outer))
	}
	// one quoted literal is the first part of two grown values that are both kept
	if Chance(t, "shared-stem", 6) {
		g.use("shared-stem")
		n := []int{3, 5, 6, 7, 2, 4}[g.pick("stemlen", 6)]
		xs := make([]val.V, n)
		for i := range xs {
			xs[i] = val.I(i)
		}
		stem := val.V{K: val.List, L: xs}
		if g.chance("stemvec", 3) {
			stem.K = val.Vec
			forms = append(forms, call("def", sym("st"), stem))
		} else {
			forms = append(forms, call("def", sym("st"), call("quote", stem)))
		}
		grow := func(k int) val.V {
			switch {
			case g.f.QQ && g.chance("stemqq", 2):
				return call("quasiquote", lst(call("splice-unquote", sym("st")), val.I(k)))
			case g.chance("stemconj", 3) && stem.K == val.Vec:
				return call("conj", sym("st"), val.I(k))
			}
			return call("concat", sym("st"), call("list", val.I(k)))
		}
		forms = append(forms, call("def", sym("s1"), grow(1)), call("def", sym("s2"), grow(2)), call("trace!", call("list", sym("s1"), sym("s2"), sym("st"))))
	}
	// a scope that is empty when a closure is made below it (the call scope of a parameterless function, a let
	// without bindings) receives a def afterwards: the closure sees it
	if Chance(t, "late-def", 6) {
		g.use("late-inner-def")
		g.use("closure-capture")
		forms = append(forms, call("def", sym("ld"), val.I(1)))
		var mkClosure val.V
		switch g.pick("ldvia", 3) {
		case 0:
			mkClosure = call("let", lst(sym("k"), val.I(0)), call("fn", lst(), sym("ld")))
		case 1:
			mkClosure = lst(call("fn", lst(sym("k")), call("fn", lst(), call("+", sym("k"), sym("ld")))), val.I(0))
		default:
			mkClosure = call("fn", lst(), sym("ld"))
		}
		body := []val.V{call("def", sym("get"), mkClosure), call("def", sym("ld"), val.I(2+g.pick("ld2", 7))), call("list", lst(sym("get")), sym("ld"))}
		var outer val.V
		if g.chance("ldlet", 2) {
			outer = val.V{K: val.List, L: append([]val.V{sym("let"), lst()}, body...)}
		} else {
			outer = lst(val.V{K: val.List, L: append([]val.V{sym("fn"), lst()}, body...)})
		}
		forms = append(forms, call("trace!", outer), call("trace!", sym("ld")))
	}
	if f.Bulk && Chance(t, "deepnest", 40) {
		g.use("deep-nesting")
		n := []int{90, 120, 160}[g.pick("deepn", 3)]
		e := val.I(0)
		for i := 0; i < n; i++ {
			if i%2 == 0 {
				e = call("+", val.I(1), e)
			} else {
				e = call("first", call("list", e))
			}
		}
		forms = append(forms, call("trace!", e))
	}
	if f.Bulk && Chance(t, "bulk", 25) {
		g.use("bulk-data")
		n := []int{100, 300, 700}[g.pick("bulkn", 3)]
		xs := make([]val.V, n)
		for i := range xs {
			switch i % 3 {
			case 0:
				xs[i] = call("quote", sym("a"))
			case 1:
				xs[i] = call("quasiquote", val.I(i))
			default:
				xs[i] = call("quote", lst(val.I(i)))
			}
		}
		forms = append(forms, call("trace!", call("count", val.V{K: val.List, L: append([]val.V{sym("list")}, xs...)})))
	}
	// the same occurrence of a name resolves outward on one call and, after a run-time def in the body, inward on the next
	if Chance(t, "cond-def", 6) {
		g.use("conditional-inner-def")
		forms = append(forms, call("def", sym("cd"), val.I(0)),
			call("def", sym("cdf"), call("fn", lst(sym("c")), call("if", sym("c"), call("def", sym("cd"), val.I(1+g.pick("cd1", 8)))), sym("cd"))),
			call("trace!", call("list", call("cdf", val.B(false)), call("cdf", val.B(true)), call("cdf", val.B(false)), sym("cd"))))
	}
	// a macro that is re-defined between two evaluations of the same call site
	if f.Macros && Chance(t, "macro-redef", 5) {
		g.use("macro-redefinition")
		mk := func(k int) val.V {
			return call("defmacro", sym("mr"), call("fn", lst(sym("x")), call("list", call("quote", sym("list")), sym("x"), val.I(k))))
		}
		forms = append(forms, mk(1), call("def", sym("fr"), call("fn", lst(sym("a")), call("mr", sym("a")))),
			call("trace!", call("fr", val.I(5))), mk(2), call("trace!", call("fr", val.I(5))))
	}
	// every closure-collecting loop is consumed at least once
	for _, rc := range append(sc.of(tRecC0), sc.of(tRecC1)...) {
		arg := lst(sym("f"))
		if sc.visible()[rc] == tRecC1 {
			arg = lst(sym("f"), val.I(1))
		}
		forms = append(forms, call("trace!", call("map", call("fn", lst(sym("f")), arg), call(rc, g.smallArg(sc), call("list")))))
	}
	nbody := rapid.IntRange(1, 3).Draw(t, "nbody")
	for i := 0; i < nbody; i++ {
		ty := Ty(g.pick("bodyty", 5))
		forms = append(forms, g.expr(ty, f.MaxDepth, sc))
	}
	return Prog{Forms: forms, Uses: g.uses, Faults: g.faults}
}

// recTemplate: recursive functions whose termination is by construction.
func (g *pg) recTemplate(i int, sc scope) ([]val.V, []tvar) {
	g.use("recursion")
	name := []string{"r1", "r2", "r3"}[i]
	n := sym("n")
	tr := func(x val.V) val.V {
		if g.chance("rectrace", 2) {
			return call("trace!", x)
		}
		return x
	}
	dec := call("-", n, val.I(1))
	switch g.pick("reckind", 8) {
	case 5, 6, 7: // tail loop with generated statements that collects a closure (or a local def) per iteration
		g.use("closure-per-iteration")
		g.use("closure-capture")
		acc := sym("acc")
		sc2 := sc.with(tvar{"n", TInt})
		ss, sc3 := g.stmts(3, sc2)
		var item val.V
		ty := tRecC0
		switch g.pick("recitem", 4) {
		case 0:
			item = call("fn", lst(), n)
		case 1:
			item = call("fn", lst(), call("+", n, g.leaf(TInt, sc3)))
		case 2:
			ss = append(ss, call("def", sym("z"), call("*", n, val.I(10))))
			item = call("fn", lst(), call("list", n, sym("z")))
		default:
			ty = tRecC1
			item = call("fn", lst(sym("x")), call("+", sym("x"), n))
		}
		tail := call(name, dec, call("cons", item, acc))
		var body val.V
		switch g.pick("rectail", 4) {
		case 0:
			body = call("if", call("<", n, val.I(1)), acc, val.V{K: val.List, L: append(append([]val.V{sym("do")}, ss...), tail)})
		case 1:
			body = call("if", call(">", n, val.I(0)), val.V{K: val.List, L: append(append([]val.V{sym("let"), lst(sym("m"), n)}, ss...), tail)}, acc)
		case 2:
			body = call("cond", call("<", n, val.I(1)), acc, val.B(true), val.V{K: val.List, L: append(append([]val.V{sym("do")}, ss...), tail)})
		default:
			// the statements sit in the fn body itself, the tail call in the if
			fnb := append([]val.V{sym("fn"), lst(n, acc)}, ss...)
			fnb = append(fnb, call("if", call("<", n, val.I(1)), acc, tail))
			return []val.V{call("def", sym(name), val.V{K: val.List, L: fnb})}, []tvar{{name, ty}}
		}
		return []val.V{call("def", sym(name), call("fn", lst(n, acc), body))}, []tvar{{name, ty}}
	case 0: // non-tail
		body := call("if", call("<", n, val.I(1)), val.I(0), call("+", tr(n), call(name, dec)))
		return []val.V{call("def", sym(name), call("fn", lst(n), body))}, []tvar{{name, tRec}}
	case 1: // rest parameter + apply
		g.use("rest-param")
		body := call("if", call("<", n, val.I(1)), call("count", sym("acc")),
			call("apply", sym(name), dec, tr(n), sym("acc")))
		return []val.V{call("def", sym(name), call("fn", lst(n, sym("&"), sym("acc")), body))}, []tvar{{name, tRec}}
	case 2: // tail recursion through a let-bound local closure
		g.use("closure-call")
		k, a := sym("k"), sym("a")
		goBody := call("if", call("<", k, val.I(1)), a, call("go", call("-", k, val.I(1)), call("+", a, tr(k))))
		body := call("let", lst(sym("go"), call("fn", lst(k, a), goBody)), call("go", n, val.I(0)))
		return []val.V{call("def", sym(name), call("fn", lst(n), body))}, []tvar{{name, tRec}}
	case 3: // mutual recursion
		other := name + "o"
		f1 := call("def", sym(name), call("fn", lst(n), call("if", call("<", n, val.I(1)), val.I(1), call(other, dec))))
		f2 := call("def", sym(other), call("fn", lst(n), call("if", call("<", n, val.I(1)), val.I(0), call(name, tr(dec)))))
		return []val.V{f1, f2}, []tvar{{name, tRec}}
	default: // tail recursion with do and a vector parameter list
		body := call("if", call("<", n, val.I(1)), sym("acc"),
			call("do", tr(n), call(name, dec, call("+", sym("acc"), n))))
		def := call("def", sym(name+"t"), call("fn", val.Vc(n, sym("acc")), body))
		wrap := call("def", sym(name), call("fn", val.Vc(n), call(name+"t", n, val.I(0))))
		return []val.V{def, wrap}, []tvar{{name, tRec}}
	}
}

func (g *pg) smallArg(sc scope) val.V {
	return val.I(rapid.IntRange(0, g.f.MaxRec).Draw(g.t, "recarg"))
}

func (g *pg) leaf(ty Ty, sc scope) val.V {
	vars := sc.of(ty)
	if len(vars) > 0 && !g.chance("leaflit", 3) {
		return sym(rapid.SampledFrom(vars).Draw(g.t, "leafvar"))
	}
	switch ty {
	case TInt:
		return val.I(rapid.IntRange(-2, 9).Draw(g.t, "int"))
	case TBool:
		return val.B(rapid.Bool().Draw(g.t, "bool"))
	case TList:
		n := g.pick("llen", 4)
		xs := make([]val.V, n)
		for i := range xs {
			xs[i] = val.I(rapid.IntRange(0, 9).Draw(g.t, "lint"))
		}
		switch g.pick("lkind", 3) {
		case 0:
			return call("quote", val.V{K: val.List, L: xs})
		case 1:
			return val.V{K: val.Vec, L: xs}
		}
		return call("list", xs...)
	case TFn:
		x := sym("x")
		switch g.pick("fnleaf", 3) {
		case 0:
			return call("fn", lst(x), x)
		case 1:
			return call("fn", val.Vc(x), call("+", x, val.I(1)))
		}
		return call("fn", lst(x, sym("&"), sym("r")), call("+", x, call("count", sym("r"))))
	default:
		switch g.pick("anyleaf", 6) {
		case 0:
			return val.N()
		case 1:
			return val.K(rapid.SampledFrom([]string{"a", "b", "k"}).Draw(g.t, "kw"))
		case 2:
			return val.S(g.str("str"))
		case 3:
			return g.leaf(TInt, sc)
		case 4:
			return g.leaf(TList, sc)
		}
		return g.leaf(TBool, sc)
	}
}

func (g *pg) faulty(sc scope) val.V {
	g.faults++
	g.use("fault")
	if g.f.Malformed && g.chance("malformed", 3) {
		g.use("malformed-form")
		return rapid.SampledFrom(MalformedForms).Draw(g.t, "malformedform")
	}
	switch g.pick("fault", 9) {
	case 0:
		return sym("zz-unbound")
	case 1:
		return lst(val.I(1), val.I(2))
	case 2:
		return call("+", val.I(1))
	case 3:
		return call("first", val.I(5))
	case 4:
		return call("nth", call("list", val.I(1)), val.I(7))
	case 5:
		return call("/", val.I(1), val.I(0))
	case 6:
		return lst(call("fn", lst(sym("x")), sym("x")))
	case 7:
		return lst(call("fn", lst(sym("x")), sym("x")), val.I(1), val.I(2))
	}
	return call("cons", val.I(1), val.I(2))
}

// MalformedForms fail in the evaluator itself (not in a builtin, not by throw).
var MalformedForms = []val.V{
	call("let", val.I(5), val.I(1)),
	call("let", lst(sym("a")), sym("a")),
	call("let", lst(val.I(1), val.I(2)), val.I(1)),
	call("let"),
	call("def", val.I(1), val.I(2)),
	call("def", sym("zz")),
	call("fn", val.I(1), val.I(2)),
	lst(call("fn", lst(val.I(1)), val.I(2)), val.I(3)),
	lst(call("fn", lst(sym("&")), val.I(2)), val.I(3)),
	call("if"),
	call("quasiquote"),
	call("quasiquote", call("unquote")),
	call("quasiquote", lst(call("splice-unquote"))),
	call("try", call("catch")),
	call("try", val.I(1), call("catch", val.I(1), val.I(2))),
	call("defmacro", sym("zz")),
	call("defmacro", sym("zz"), val.I(1)),
	call("eval"),
	call("macroexpand"),
	call("throw"),
	call("unquote", val.I(1)),
	call("splice-unquote", val.I(1)),
	call("catch", sym("e"), val.I(1)),
	call("finally", val.I(1)),
}

// stmts draws body statements; defs extend the scope of the following forms.
func (g *pg) stmts(d int, sc scope) ([]val.V, scope) {
	n := g.pick("nstmt", 3)
	out := []val.V{}
	for i := 0; i < n; i++ {
		switch g.pick("stmt", 4) {
		case 0, 1:
			out = append(out, call("trace!", g.nextTrace()))
		case 2:
			name := g.localName()
			ty := Ty(g.pick("defty", 3))
			out = append(out, call("def", sym(name), g.expr(ty, d-1, sc)))
			sc = sc.with(tvar{name, ty})
			g.use("inner-def")
		default:
			out = append(out, g.expr(TAny, d-1, sc))
		}
	}
	return out, sc
}

func (g *pg) body(ty Ty, d int, sc scope) []val.V {
	ss, sc2 := g.stmts(d, sc)
	return append(ss, g.expr(ty, d-1, sc2))
}

func (g *pg) expr(ty Ty, d int, sc scope) val.V {
	g.budget--
	if g.faultsLeft > 0 && g.chance("fault?", 15) {
		g.faultsLeft--
		return g.faulty(sc)
	}
	if d <= 0 || g.budget <= 0 {
		return g.leaf(ty, sc)
	}
	if g.f.Try && ((g.inTry > 0 && g.chance("throwpt", 12)) || g.chance("throwtop", 150)) {
		return g.throwPoint(d, sc)
	}
	if len(g.macros) > 0 && g.chance("macrocall", 7) {
		return g.macroCall(ty, d, sc)
	}
	if g.chance("wraptrace", 7) {
		return call("trace!", g.expr(ty, d-1, sc))
	}
	// constructs available at every type
	if g.chance("generic", 3) {
		return g.generic(ty, d, sc)
	}
	switch ty {
	case TInt:
		return g.intExpr(d, sc)
	case TBool:
		return g.boolExpr(d, sc)
	case TList:
		return g.listExpr(d, sc)
	case TFn:
		return g.fnExpr(d, sc)
	default:
		if g.chance("nestedlit", 8) {
			// collection literals nested two or more levels deep, with variables / calls inside
			g.use("nested-literal")
			inner := val.Vc(g.expr(TInt, d-1, sc))
			switch g.pick("nestlitk", 4) {
			case 0:
				return val.Vc(inner)
			case 1:
				return val.Vc(val.I(1), val.Vc(g.leaf(TInt, sc), inner))
			case 2:
				return val.M(map[string]val.V{val.KwMark + "c": val.I(0), val.KwMark + "nested": val.Vc(val.I(1), inner)})
			}
			return val.Vc(val.Vc(val.Vc(call("trace!", g.nextTrace()))), val.I(2))
		}
		if g.chance("anymap", 6) {
			// map literal: evaluation order of the values is unspecified -> at most one effectful value
			return val.M(map[string]val.V{val.KwMark + "a": val.I(g.pick("mapconst", 9)), val.KwMark + "b": g.expr(TInt, d-1, sc)})
		}
		if g.chance("anyleaf", 4) {
			return g.leaf(TAny, sc)
		}
		return g.expr(Ty(g.pick("anyty", 4)), d, sc)
	}
}

func (g *pg) generic(ty Ty, d int, sc scope) val.V {
	max := 7
	if g.f.Try {
		max = 11
	}
	switch c := g.pick("gen", max); {
	case c == 0:
		if ty == TAny && g.chance("if2", 2) {
			return call("if", g.expr(TBool, d-1, sc), g.expr(ty, d-1, sc))
		}
		return call("if", g.expr(TBool, d-1, sc), g.expr(ty, d-1, sc), g.expr(ty, d-1, sc))
	case c == 1: // if on a non-boolean condition: only nil and false are falsy
		return call("if", g.expr(TAny, d-1, sc), g.expr(ty, d-1, sc), g.expr(ty, d-1, sc))
	case c == 2 || c == 3: // let, sequential bindings, list or vector syntax
		nb := 1 + g.pick("nbind", 3)
		binds := []val.V{}
		sc2 := sc
		for i := 0; i < nb; i++ {
			name := g.localName()
			bty := Ty(g.pick("bindty", 4))
			if g.chance("shadowbuiltin", 12) {
				// rebinding a builtin name to a builtin of the same signature
				pairs := [][2]string{{"+", "-"}, {"+", "*"}, {"<", ">"}, {"first", "count"}, {"list", "vector"}}
				p := pairs[g.pick("sbp", len(pairs))]
				binds = append(binds, sym(p[0]), sym(p[1]))
				g.use("shadow-builtin")
				continue
			}
			binds = append(binds, sym(name), g.expr(bty, d-1, sc2))
			if sc2.shadows(name) {
				g.use("shadowing")
			}
			sc2 = sc2.with(tvar{name, bty})
		}
		bv := val.V{K: val.List, L: binds}
		if g.chance("letvec", 2) {
			bv.K = val.Vec
		}
		if g.chance("emptylet", 15) {
			return call("let", bv)
		}
		return val.V{K: val.List, L: append([]val.V{sym("let"), bv}, g.body(ty, d, sc2)...)}
	case c == 4:
		return val.V{K: val.List, L: append([]val.V{sym("do")}, g.body(ty, d, sc)...)}
	case c == 5: // immediately applied lambda
		np := g.pick("nparam", 3)
		params := []val.V{}
		args := []val.V{}
		sc2 := sc
		for i := 0; i < np; i++ {
			name := g.localName()
			pty := Ty(g.pick("pty", 4))
			dup := false
			for _, p := range params {
				if p.S == name {
					dup = true
				}
			}
			if dup {
				continue
			}
			params = append(params, sym(name))
			args = append(args, g.expr(pty, d-1, sc))
			if sc2.shadows(name) {
				g.use("shadowing")
			}
			sc2 = sc2.with(tvar{name, pty})
		}
		if g.chance("restp", 3) {
			params = append(params, sym("&"), sym("more"))
			sc2 = sc2.with(tvar{"more", TList})
			ne := g.pick("nextra", 3)
			for i := 0; i < ne; i++ {
				args = append(args, g.expr(TInt, d-1, sc))
			}
			g.use("rest-param")
		}
		pv := val.V{K: val.List, L: params}
		if g.chance("paramvec", 2) {
			pv.K = val.Vec
		}
		fn := val.V{K: val.List, L: append([]val.V{sym("fn"), pv}, g.body(ty, d, sc2)...)}
		g.use("closure-call")
		return val.V{K: val.List, L: append([]val.V{fn}, args...)}
	case c == 6:
		if g.f.Cond || g.f.Lib {
			g.use("cond")
			return call("cond", g.expr(TBool, d-1, sc), g.expr(ty, d-1, sc), g.expr(TAny, d-1, sc), g.expr(ty, d-1, sc), val.B(true), g.expr(ty, d-1, sc))
		}
		return call("first", call("list", g.expr(ty, d-1, sc), g.expr(TAny, d-1, sc)))
	default:
		return g.tryExpr(ty, d, sc)
	}
}

func (g *pg) intExpr(d int, sc scope) val.V {
	switch c := g.pick("int", 12); {
	case c <= 2:
		op := rapid.SampledFrom([]string{"+", "-", "*"}).Draw(g.t, "arith")
		if sc.shadows(op) {
			return g.leaf(TInt, sc)
		}
		return call(op, g.expr(TInt, d-1, sc), g.expr(TInt, d-1, sc))
	case c == 3:
		if sc.shadows("count") {
			return g.leaf(TInt, sc)
		}
		return call("count", g.expr(TList, d-1, sc))
	case c == 4 || c == 5: // call a function value
		g.use("closure-call")
		return lst(g.expr(TFn, d-1, sc), g.expr(TInt, d-1, sc))
	case c == 6: // recursion template
		if rs := sc.of(tRec); len(rs) > 0 {
			return call(rapid.SampledFrom(rs).Draw(g.t, "recfn"), g.smallArg(sc))
		}
		return g.leaf(TInt, sc)
	case c == 7:
		return call("apply", g.expr(TFn, d-1, sc), call("list", g.expr(TInt, d-1, sc)))
	case c == 8: // local recursive closure (closures capture their defining scope by reference)
		g.use("recursion")
		f, k := sym("f"), sym("k")
		body := call("if", call("<", k, val.I(1)), g.expr(TInt, d-2, sc), call("+", val.I(1), call("f", call("-", k, val.I(1)))))
		return call("let", lst(f, call("fn", lst(k), body)), call("f", g.smallArg(sc)))
	case c == 9:
		if sc.shadows("first") {
			return g.leaf(TInt, sc)
		}
		return call("first", call("cons", g.expr(TInt, d-1, sc), g.expr(TList, d-1, sc)))
	case c == 10:
		return call("nth", call("list", g.expr(TInt, d-1, sc), g.expr(TInt, d-1, sc)), val.I(g.pick("nthi", 2)))
	}
	return g.leaf(TInt, sc)
}

// str draws a string literal's content.
func (g *pg) str(label string) string {
	if g.f.HotStr && g.chance(label+"multiline", 6) {
		g.use("hot-string")
		g.use("multi-line-string")
		return rapid.SampledFrom([]string{"line one\r\nline two", "a\nb", "x\r\n", "\r\n\r\n", "{\"k\":\r\n 1}", "a\rb", "tab\tand\r\nCRLF; not a comment", "(\r\n", "\n;; $x 1\n"}).Draw(g.t, label+"ml")
	}
	if g.f.HotStr && !g.chance(label+"plain", 2) {
		g.use("hot-string")
		return Str(g.t, label+"hot", Opts{Str: StrHot, NoKwMark: true, NoNUL: true})
	}
	return Str(g.t, label, Opts{Str: StrPlain})
}

func (g *pg) boolExpr(d int, sc scope) val.V {
	if g.f.FnEq && g.chance("fneq", 15) {
		g.use("fn-equality")
		a, b := g.expr(TFn, d-1, sc), g.expr(TFn, d-1, sc)
		var e val.V
		switch g.pick("fneqk", 3) {
		case 0:
			e = call("=", a, b)
		case 1:
			e = call("=", val.Vc(val.I(1), a), val.Vc(val.I(1), b))
		default:
			e = call("=", a, sym(rapid.SampledFrom([]string{"+", "first", "not"}).Draw(g.t, "fneqb")))
		}
		if g.f.Try && !g.chance("fneqbare", 3) {
			return call("try", e, call("catch", sym("e"), val.B(false)))
		}
		return e
	}
	switch c := g.pick("bool", 9); {
	case c <= 1:
		op := rapid.SampledFrom([]string{"<", "<=", ">", ">="}).Draw(g.t, "cmp")
		if sc.shadows(op) {
			return g.leaf(TBool, sc)
		}
		return call(op, g.expr(TInt, d-1, sc), g.expr(TInt, d-1, sc))
	case c == 2:
		return call("=", g.expr(TInt, d-1, sc), g.expr(TInt, d-1, sc))
	case c == 3:
		return call("=", g.expr(TList, d-1, sc), g.expr(TList, d-1, sc))
	case c == 4:
		return call("not", g.expr(TAny, d-1, sc))
	case c == 5:
		return call("empty?", g.expr(TList, d-1, sc))
	case c == 6:
		return call("nil?", g.expr(TAny, d-1, sc))
	case c == 7:
		if g.f.Lib {
			g.use("and-or")
			op := rapid.SampledFrom([]string{"and", "or"}).Draw(g.t, "andor")
			n := 1 + g.pick("nandor", 3)
			args := make([]val.V, n)
			for i := range args {
				args[i] = g.expr(TBool, d-1, sc)
			}
			return call(op, args...)
		}
	}
	return g.leaf(TBool, sc)
}

func (g *pg) listExpr(d int, sc scope) val.V {
	switch c := g.pick("list", 10); {
	case c <= 1:
		if sc.shadows("list") {
			return g.leaf(TList, sc)
		}
		n := g.pick("nl", 4)
		xs := make([]val.V, n)
		for i := range xs {
			xs[i] = g.expr(TInt, d-1, sc)
		}
		if c == 0 {
			return call("list", xs...)
		}
		return val.V{K: val.Vec, L: xs}
	case c == 2:
		return call("cons", g.expr(TInt, d-1, sc), g.expr(TList, d-1, sc))
	case c == 3:
		return call("rest", g.expr(TList, d-1, sc))
	case c == 4:
		return call("concat", g.expr(TList, d-1, sc), g.expr(TList, d-1, sc))
	case c == 5:
		return call("map", g.expr(TFn, d-1, sc), g.expr(TList, d-1, sc))
	case c == 6:
		return call("vec", g.expr(TList, d-1, sc))
	case c == 7:
		if rs := sc.of(tRec); len(rs) > 0 {
			return call("map", sym(rapid.SampledFrom(rs).Draw(g.t, "recfn")), call("list", g.smallArg(sc), g.smallArg(sc)))
		}
	case c == 8:
		if g.f.QQ {
			return g.qqList(d, sc)
		}
	case c == 9:
		if rs := sc.of(tRecC0); len(rs) > 0 {
			return call("map", call("fn", lst(sym("f")), lst(sym("f"))), call(rapid.SampledFrom(rs).Draw(g.t, "recc0"), g.smallArg(sc), call("list")))
		}
		if rs := sc.of(tRecC1); len(rs) > 0 {
			return call("map", call("fn", lst(sym("f")), lst(sym("f"), g.expr(TInt, d-1, sc))), call(rapid.SampledFrom(rs).Draw(g.t, "recc1"), g.smallArg(sc), call("list")))
		}
	}
	return g.leaf(TList, sc)
}

func (g *pg) fnExpr(d int, sc scope) val.V {
	switch c := g.pick("fn", 6); {
	case c <= 2:
		name := g.localName()
		sc2 := sc.with(tvar{name, TInt})
		if sc.shadows(name) {
			g.use("shadowing")
		}
		pv := lst(sym(name))
		if g.chance("fnvec", 2) {
			pv.K = val.Vec
		}
		return val.V{K: val.List, L: append([]val.V{sym("fn"), pv}, g.body(TInt, d, sc2)...)}
	case c == 3: // closure over a let-bound variable, returned and called later
		name := g.localName()
		k := "k"
		sc2 := sc.with(tvar{k, TInt}, tvar{name, TInt})
		g.use("closure-capture")
		return call("let", lst(sym(k), g.expr(TInt, d-1, sc)),
			call("fn", lst(sym(name)), call("+", sym(k), g.expr(TInt, d-2, sc2))))
	case c == 4: // rest parameter
		g.use("rest-param")
		sc2 := sc.with(tvar{"x", TInt}, tvar{"r", TList})
		return call("fn", lst(sym("x"), sym("&"), sym("r")), g.expr(TInt, d-1, sc2))
	}
	return g.leaf(TFn, sc)
}
