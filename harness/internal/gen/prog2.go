package gen

import (
	"pgregory.net/rapid"

	"verifharness/internal/val"
)

// CodeLookingData: data that would compute something else if it were evaluated again.
var CodeLookingData = []val.V{
	val.L(val.Y("+"), val.I(1), val.I(2)),
	val.Y("zz-unbound"),
	val.Y("x"),
	val.L(val.Y("trace!"), val.I(999)),
	val.L(val.Y("throw"), val.I(7)),
	val.M(map[string]val.V{val.KwMark + "code": val.L(val.Y("+"), val.I(1), val.I(2))}),
	val.Vc(val.L(val.Y("list"), val.I(1)), val.Y("y")),
	val.L(val.Y("quote"), val.Y("q")),
	val.L(val.Y("do")),
	val.L(val.L(val.Y("fn"), val.L(), val.I(5))),
	val.L(),
}

func (g *pg) datum(d int, sc scope) val.V {
	switch c := g.pick("datum", 10); {
	case c <= 3:
		g.use("code-looking-datum")
		return call("quote", rapid.SampledFrom(CodeLookingData).Draw(g.t, "codedatum"))
	case c == 4:
		return val.N()
	case c == 5:
		return val.S(g.str("dstr"))
	case c == 6:
		return val.K("err")
	case c == 7:
		return val.M(map[string]val.V{val.KwMark + "k": g.leaf(TInt, sc), val.KwMark + "c": val.I(1)})
	case c == 8:
		return call("list", g.leaf(TInt, sc), g.leaf(TAny, sc))
	}
	return g.expr(TInt, d-1, sc)
}

// throwPoint: an expression that raises.
func (g *pg) throwPoint(d int, sc scope) val.V {
	g.use("throw")
	max := 6
	if g.f.Sentinels {
		max = 10
	}
	if g.f.Sentinels && g.inTry > 0 && g.chance("rawpanic", 12) {
		// a panic of an embedder function bound without the reflective binder
		g.use("raw-go-panic")
		return call("raw-panic-go!")
	}
	if g.f.Atoms && g.chance("swapthrow", 12) {
		// thrown out of an update function that has re-set its atom: the swap must fail, not try again
		g.use("throw-in-swap")
		at := sym("at")
		return call("let", lst(at, call("atom", val.I(0))),
			call("swap!", at, call("fn", lst(sym("v")), call("if", call("<", sym("v"), val.I(1)),
				call("do", call("reset!", at, val.I(5)), call("throw", g.datum(d, sc))),
				call("+", sym("v"), val.I(100))))))
	}
	switch c := g.pick("throwkind", max); {
	case c <= 1:
		return call("throw", g.datum(d, sc))
	case c == 2: // thrown by a called function
		g.use("throw-in-callee")
		return lst(call("fn", lst(sym("v")), call("do", call("trace!", g.nextTrace()), call("throw", sym("v")))), g.datum(d, sc))
	case c == 3:
		g.use("builtin-failure")
		return call("nth", val.Vc(val.I(1)), val.I(5))
	case c == 4:
		g.use("builtin-failure")
		return call("/", val.I(1), val.I(0))
	case c == 5: // through map / apply
		g.use("throw-in-callee")
		return call("map", call("fn", lst(sym("v")), call("throw", sym("v"))), call("list", g.datum(d, sc)))
	case c == 6:
		g.use("go-error")
		return call("raise-go!")
	case c == 7:
		g.use("go-panic")
		return call("panic-go!")
	case c == 8:
		g.use("go-panic")
		return call("panic-val!", g.datum(d, sc))
	}
	g.use("go-error")
	return call("do", call("trace!", g.nextTrace()), call("raise-go!"))
}

var catchNames = []string{"e", "e", "err", "x", "a"}

func (g *pg) tryExpr(ty Ty, d int, sc scope) val.V {
	g.use("try")
	g.inTry++
	nb := g.pick("ntrybody", 3)
	body := []val.V{}
	for i := 0; i < nb; i++ {
		if g.chance("trystmt", 2) {
			body = append(body, call("trace!", g.nextTrace()))
		} else {
			body = append(body, g.expr(TAny, d-1, sc))
		}
	}
	shape := g.pick("tryshape", 8)
	hasCatch := shape <= 5
	hasFin := shape >= 3 && shape != 7
	throwOdds := 2
	if !hasCatch && g.inTry == 0 {
		throwOdds = 8 // nothing here catches it: keep most programs running
	}
	if g.chance("trythrow", throwOdds) {
		body = append(body, g.throwPoint(d, sc))
		if g.chance("afterthrow", 3) {
			body = append(body, call("trace!", g.nextTrace())) // must never run
		}
	}
	body = append(body, g.expr(ty, d-1, sc))
	g.inTry--

	form := append([]val.V{sym("try")}, body...)
	var cname string
	if hasCatch {
		cname = rapid.SampledFrom(catchNames).Draw(g.t, "cname")
		if sc.shadows(cname) {
			g.use("catch-shadows")
		}
		sc2 := sc.with(tvar{cname, TAny})
		h := []val.V{sym("catch"), sym(cname)}
		if g.chance("hstmt", 2) {
			h = append(h, call("trace!", sym(cname)))
		}
		if g.chance("hthrow-early", 8) {
			// a leading (not last) handler form throws: finally must still run, the later forms must not
			g.inTry++
			h = append(h, g.throwPoint(d-1, sc2))
			g.inTry--
			g.use("handler-throws")
			g.use("handler-throws-in-leading-form")
		}
		hk := g.pick("handler", 14)
		if (hk == 3 || hk == 4) && g.inTry == 0 && g.chance("escape", 2) {
			hk = 9 // half of the escaping handlers become ordinary ones
		}
		switch c := hk; {
		case c <= 2:
			h = append(h, sym(cname)) // the caught object as the value of the try form
			g.use("handler-returns-caught")
		case c == 3:
			h = append(h, call("throw", sym(cname)))
			g.use("handler-rethrows")
		case c == 4:
			g.inTry++
			h = append(h, g.throwPoint(d-1, sc2))
			g.inTry--
			g.use("handler-throws")
		case c == 5: // tail call in the handler
			h = append(h, lst(call("fn", lst(sym("v")), call("do", call("trace!", g.nextTrace()), sym("v"))), sym(cname)))
			g.use("handler-tailcall")
		case c == 6:
			h = append(h, call("list", sym(cname), g.expr(ty, d-2, sc2)))
		default:
			h = append(h, g.expr(ty, d-1, sc2))
		}
		form = append(form, val.V{K: val.List, L: h})
	}
	if hasFin {
		g.use("finally")
		f := []val.V{sym("finally")}
		switch c := g.pick("fin", 8); {
		case c <= 2:
			f = append(f, call("trace!", g.nextTrace()))
		case c <= 4:
			// reads a variable named like a catch variable: must see the binding of the try's own scope
			n := cname
			if n == "" {
				n = "e"
			}
			f = append(f, call("trace!", call("try", sym(n), call("catch", sym("zz"), val.K("unbound")))))
			g.use("finally-reads-var")
		case c == 5:
			f = append(f, call("trace!", g.nextTrace()), call("throw", val.K("from-finally")), call("trace!", g.nextTrace()))
			g.use("finally-throws")
		case c == 6:
			f = append(f, call("trace!", g.nextTrace()), g.expr(TAny, d-2, sc), call("trace!", g.nextTrace()))
		default:
			if vs := sc.of(TInt); len(vs) > 0 {
				f = append(f, call("trace!", sym(rapid.SampledFrom(vs).Draw(g.t, "finvar"))))
			} else {
				f = append(f, call("trace!", g.nextTrace()))
			}
		}
		form = append(form, val.V{K: val.List, L: f})
	}
	return val.V{K: val.List, L: form}
}

// qqList: a quasiquoted template producing a list of ints.
func (g *pg) qqList(d int, sc scope) val.V {
	g.use("quasiquote")
	n := 1 + g.pick("qqn", 4)
	xs := []val.V{}
	for i := 0; i < n; i++ {
		switch g.pick("qqel", 4) {
		case 0:
			xs = append(xs, val.I(g.pick("qqlit", 9)))
		case 1:
			xs = append(xs, call("unquote", g.expr(TInt, d-1, sc)))
		case 2:
			xs = append(xs, call("splice-unquote", g.expr(TList, d-1, sc)))
		default:
			xs = append(xs, call("unquote", call("trace!", g.nextTrace())))
		}
	}
	tpl := val.V{K: val.List, L: xs}
	if g.chance("qqvec", 3) {
		tpl.K = val.Vec
	}
	return call("quasiquote", tpl)
}

// macroDef: a few macro shapes built from quasiquote templates.
func (g *pg) macroDef(i int, sc scope) (val.V, macroInfo, bool) {
	g.use("macro")
	name := []string{"m1", "m2", "m3"}[i]
	uq := func(s string) val.V { return call("unquote", sym(s)) }
	switch g.pick("macrokind", 6) {
	case 4: // throws while it is being expanded (the error crosses the macro expansion)
		if g.f.Try {
			g.use("macro-throws-at-expansion")
			return call("defmacro", sym(name), call("fn", lst(sym("x")), call("throw", call("list", call("quote", sym("expansion-of")), sym("x"))))), macroInfo{name, 1}, true
		}
		fallthrough
	case 5: // expands to a throw of its (unevaluated) operand form
		if g.f.Try {
			g.use("macro-expands-to-throw")
			return call("defmacro", sym(name), call("fn", lst(sym("x")), call("list", call("quote", sym("throw")), call("list", call("quote", sym("quote")), sym("x"))))), macroInfo{name, 1}, true
		}
		fallthrough
	case 0: // when-like: (m c x) => (if c x nil)
		tpl := call("quasiquote", call("if", uq("c"), uq("x"), val.N()))
		return call("defmacro", sym(name), call("fn", lst(sym("c"), sym("x")), tpl)), macroInfo{name, 2}, true
	case 1: // (m x) => (trace! x), built with list
		return call("defmacro", sym(name), call("fn", lst(sym("x")), call("list", call("quote", sym("trace!")), sym("x")))), macroInfo{name, 1}, true
	case 2: // (m x body...) => (let (tmp x) (do body... tmp))
		tpl := call("quasiquote", call("let", lst(sym("tmp"), uq("x")), call("do", call("splice-unquote", sym("body")), sym("tmp"))))
		return call("defmacro", sym(name), call("fn", lst(sym("x"), sym("&"), sym("body")), tpl)), macroInfo{name, -1}, true
	default: // unless-like, expands to another macro if one exists
		tpl := call("quasiquote", call("if", uq("c"), val.N(), uq("x")))
		return call("defmacro", sym(name), call("fn", val.Vc(sym("c"), sym("x")), tpl)), macroInfo{name, 2}, true
	}
}

func (g *pg) macroCall(ty Ty, d int, sc scope) val.V {
	m := g.macros[g.pick("whichmacro", len(g.macros))]
	g.use("macro-call")
	switch m.arity {
	case 1:
		return call(m.name, g.expr(ty, d-1, sc))
	case 2:
		return call(m.name, g.expr(TBool, d-1, sc), g.expr(ty, d-1, sc))
	default:
		return call(m.name, g.expr(ty, d-1, sc), call("trace!", g.nextTrace()), g.expr(TAny, d-2, sc))
	}
}
