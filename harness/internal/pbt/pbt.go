// Package pbt is the glue between a property (generator + pure check function),
// rapid, the corpus/replay files and the evidence counters.
package pbt

import (
	"encoding/json"
	"fmt"
	"os"
	"path/filepath"
	"sort"
	"strconv"
	"strings"
	"sync"
	"testing"
	"time"

	"pgregory.net/rapid"
)

// Verdict is what a pure check function says about one case.
type Verdict struct {
	Fail       bool     `json:"fail"`
	Msg        string   `json:"msg,omitempty"`
	Sig        string   `json:"sig,omitempty"` // root-cause signature of a failure
	NonTrivial bool     `json:"nontrivial,omitempty"`
	Key        string   `json:"-"` // identity of the case for distinct counting (hashed)
	Labels     []string `json:"labels,omitempty"`
	Excluded   string   `json:"excluded,omitempty"` // case not judged, reason
	Evals      int      `json:"-"`                  // extra evaluations done inside this case (0 -> 1)
	// Inconclusive: the case could not be decided for infrastructure reasons
	// (time budget, machine load); never a violation.
	Inconclusive bool `json:"inconclusive,omitempty"`
}

func Failf(sig, format string, a ...any) Verdict {
	return Verdict{Fail: true, Sig: sig, Msg: fmt.Sprintf(format, a...)}
}

type Prop[C any] struct {
	ID    string
	Rule  string
	Gen   func(t *rapid.T) C
	Check func(c C) Verdict
	// Show renders a case for the evidence samples (default: the JSON of the case).
	Show func(c C) any
	// ReplayTries: how often a replay re-runs the case looking for the failure (default 1).
	ReplayTries int
}

type failRec struct {
	Property string          `json:"property"`
	Sig      string          `json:"sig"`
	Msg      string          `json:"msg"`
	Case     json.RawMessage `json:"case"`
}

type stats struct {
	mu           sync.Mutex
	Property     string                     `json:"property"`
	Evaluations  int                        `json:"evaluations"`
	NonTrivial   int                        `json:"nontrivial_total"`
	Labels       map[string]int             `json:"labels"`
	Excluded     map[string]int             `json:"excluded"`
	KnownHits    map[string]int             `json:"known_hits"`
	KnownExample map[string]json.RawMessage `json:"known_example"`
	Samples      []any                      `json:"samples"`
	Exhaustive   map[string]int             `json:"exhaustive"`
	Inconclusive int                        `json:"inconclusive"`
	Failures     int                        `json:"failures"`
	Notes        map[string]string          `json:"notes"`
	hashes       map[uint64]struct{}
	HashFile     string  `json:"hash_file"`
	HashCap      bool    `json:"hash_capped"`
	WallS        float64 `json:"wall_s"`
	start        time.Time
}

var st = &stats{
	Labels: map[string]int{}, Excluded: map[string]int{}, KnownHits: map[string]int{},
	KnownExample: map[string]json.RawMessage{}, Exhaustive: map[string]int{}, Notes: map[string]string{},
	hashes: map[uint64]struct{}{},
}

// Out is the process's real stdout (checks may silence os.Stdout afterwards).
var Out = os.Stdout

const hashCap = 4_000_000

var known = map[string]bool{}

// KnownSig reports whether sig is listed as a known (unrepaired) finding.
func KnownSig(sig string) bool { return known[sig] }

// Tier returns "quick" or "thorough".
func Tier() string {
	if os.Getenv("VERIF_TIER") == "thorough" {
		return "thorough"
	}
	return "quick"
}

// Main runs the tests and writes the shard statistics file.
func Main(m *testing.M) {
	st.start = time.Now()
	if k := os.Getenv("VERIF_KNOWN_SIGS"); k != "" {
		for _, s := range strings.Split(k, "\x1f") {
			if s != "" {
				known[s] = true
			}
		}
	}
	code := m.Run()
	Flush()
	os.Exit(code)
}

// Flush writes the statistics file (also called by child-process helpers).
func Flush() {
	out := os.Getenv("VERIF_OUT")
	if out == "" {
		return
	}
	st.mu.Lock()
	defer st.mu.Unlock()
	st.WallS = time.Since(st.start).Seconds()
	hs := make([]uint64, 0, len(st.hashes))
	for h := range st.hashes {
		hs = append(hs, h)
	}
	sort.Slice(hs, func(i, j int) bool { return hs[i] < hs[j] })
	var sb strings.Builder
	for _, h := range hs {
		sb.WriteString(strconv.FormatUint(h, 16))
		sb.WriteByte('\n')
	}
	st.HashFile = out + ".hashes"
	_ = os.WriteFile(st.HashFile, []byte(sb.String()), 0o644)
	b, _ := json.Marshal(st)
	_ = os.WriteFile(out, b, 0o644)
}

func fnv64(s string) uint64 {
	var h uint64 = 14695981039346656037
	for i := 0; i < len(s); i++ {
		h ^= uint64(s[i])
		h *= 1099511628211
	}
	return h
}

// Label increments a label counter directly.
func Label(l string) {
	st.mu.Lock()
	st.Labels[l]++
	st.mu.Unlock()
}

// Note stores a free-text observation for the evidence file.
func Note(k, v string) {
	st.mu.Lock()
	st.Notes[k] = v
	st.mu.Unlock()
}

// Exhaustive records that a finite sub-space was enumerated completely.
func Exhaustive(name string, n int) {
	st.mu.Lock()
	st.Exhaustive[name] += n
	st.mu.Unlock()
}

func sampleAt(n int) bool {
	switch n {
	case 1, 2, 3, 10, 50, 100, 500, 1000, 5000, 10000, 100000:
		return true
	}
	return false
}

func record[C any](p Prop[C], c C, v Verdict) {
	st.mu.Lock()
	defer st.mu.Unlock()
	st.Property = p.ID
	n := v.Evals
	if n <= 0 {
		n = 1
	}
	st.Evaluations += n
	for _, l := range v.Labels {
		st.Labels[l]++
	}
	if v.Excluded != "" {
		st.Excluded[v.Excluded]++
		return
	}
	if v.Inconclusive {
		st.Inconclusive++
		return
	}
	if v.NonTrivial {
		st.NonTrivial++
		key := v.Key
		if key == "" {
			b, _ := json.Marshal(c)
			key = string(b)
		}
		if len(st.hashes) < hashCap {
			st.hashes[fnv64(key)] = struct{}{}
		} else {
			st.HashCap = true
		}
		if sampleAt(st.NonTrivial) && len(st.Samples) < 12 {
			if p.Show != nil {
				st.Samples = append(st.Samples, p.Show(c))
			} else {
				st.Samples = append(st.Samples, c)
			}
		}
	}
}

func writeFail[C any](p Prop[C], c C, v Verdict) {
	path := os.Getenv("VERIF_FAIL")
	if path == "" {
		return
	}
	cb, _ := json.Marshal(c)
	b, _ := json.MarshalIndent(failRec{Property: p.ID, Sig: v.Sig, Msg: v.Msg, Case: cb}, "", " ")
	_ = os.WriteFile(path, b, 0o644)
}

// judge records the verdict and decides whether this case is a (new) failure.
func judge[C any](p Prop[C], c C, v Verdict) (fail bool) {
	record(p, c, v)
	if !v.Fail {
		return false
	}
	if v.Sig == "" {
		v.Sig = "unspecified"
	}
	if known[v.Sig] {
		st.mu.Lock()
		st.KnownHits[v.Sig]++
		if _, ok := st.KnownExample[v.Sig]; !ok {
			b, _ := json.Marshal(c)
			st.KnownExample[v.Sig] = b
		}
		st.mu.Unlock()
		return false
	}
	st.mu.Lock()
	st.Failures++
	st.mu.Unlock()
	writeFail(p, c, v)
	return true
}

// Run drives the property with rapid (case count and seed come from -rapid.* flags).
func Run[C any](t *testing.T, p Prop[C]) {
	_ = os.RemoveAll(filepath.Join("testdata", "rapid"))
	rapid.Check(t, func(rt *rapid.T) {
		c := p.Gen(rt)
		v := safeCheck(p, c)
		if judge(p, c, v) {
			rt.Fatalf("property %s violated [%s]: %s", p.ID, v.Sig, v.Msg)
		}
	})
}

// RunOne judges a single explicitly constructed case (enumerators, corpus).
func RunOne[C any](t *testing.T, p Prop[C], c C) bool {
	v := safeCheck(p, c)
	if judge(p, c, v) {
		t.Errorf("property %s violated [%s]: %s", p.ID, v.Sig, v.Msg)
		return false
	}
	return true
}

func safeCheck[C any](p Prop[C], c C) (v Verdict) {
	defer func() {
		if r := recover(); r != nil {
			v = Verdict{Fail: true, Sig: "harness-panic", Msg: fmt.Sprintf("panic inside check: %v", r)}
		}
	}()
	return p.Check(c)
}

// Corpus replays every committed regression case of the property.
func Corpus[C any](t *testing.T, p Prop[C]) {
	dir := os.Getenv("VERIF_CORPUS")
	if dir == "" {
		t.Skip("no corpus dir")
	}
	files, _ := filepath.Glob(filepath.Join(dir, "*.json"))
	sort.Strings(files)
	n := 0
	for _, f := range files {
		b, err := os.ReadFile(f)
		if err != nil {
			t.Fatalf("corpus %s: %v", f, err)
		}
		var fr failRec
		var c C
		raw := b
		if json.Unmarshal(b, &fr) == nil && len(fr.Case) > 0 {
			raw = fr.Case
		}
		if err := json.Unmarshal(raw, &c); err != nil {
			t.Fatalf("corpus %s: %v", f, err)
		}
		n++
		RunOne(t, p, c)
	}
	st.mu.Lock()
	st.Labels["corpus_cases"] += n
	st.mu.Unlock()
}

// Replay re-checks the case in $VERIF_REPLAY without rapid and prints one JSON line.
func Replay[C any](t *testing.T, p Prop[C]) {
	path := os.Getenv("VERIF_REPLAY")
	if path == "" {
		t.Skip("no replay file")
	}
	b, err := os.ReadFile(path)
	if err != nil {
		t.Fatalf("replay: %v", err)
	}
	var fr failRec
	raw := b
	if json.Unmarshal(b, &fr) == nil && len(fr.Case) > 0 {
		raw = fr.Case
	}
	var c C
	if err := json.Unmarshal(raw, &c); err != nil {
		t.Fatalf("replay: cannot decode case: %v", err)
	}
	tries := p.ReplayTries
	if tries <= 0 {
		tries = 1
	}
	var v Verdict
	for i := 0; i < tries; i++ {
		v = safeCheck(p, c)
		if v.Fail {
			break
		}
	}
	out, _ := json.Marshal(map[string]any{"fail": v.Fail, "sig": v.Sig, "msg": v.Msg, "inconclusive": v.Inconclusive})
	fmt.Fprintf(Out, "REPLAY-RESULT %s\n", out)
}
