package box

import (
	"errors"
	"fmt"

	"github.com/jig/lisp/types"

	"verifharness/internal/refmal"
	"verifharness/internal/val"
)

// Sentinel is the Go error the harness builtins raise-go! and panic-go! produce.
var Sentinel = errors.New("verif-sentinel-error")

// CompareOutcome checks the real result against the model's outcome: same kind,
// equal value / same thrown object. Returns "" when they agree.
func CompareOutcome(o refmal.Outcome, r Result) (sig, msg string) {
	if r.Panicked {
		return "panic:" + r.PanicSite, fmt.Sprintf("EVAL panicked: %v", r.PanicVal)
	}
	if o.Thrown == nil {
		if r.Err != nil {
			return "error-instead-of-value", fmt.Sprintf("definition gives value %s, implementation returned error %v", val.Canon(o.Val), r.Err)
		}
		if got := val.From(r.Val); !val.Eq(got, o.Val) {
			return "wrong-value", fmt.Sprintf("definition gives %s, implementation %s", val.Canon(o.Val), val.Canon(got))
		}
		return "", ""
	}
	if r.Err == nil {
		return "value-instead-of-error", fmt.Sprintf("definition prescribes an error (%s), implementation returned %s", describeThrown(o.Thrown), val.Canon(val.From(r.Val)))
	}
	ev, has := ErrorValue(r.Err)
	if o.Thrown.Go == "" {
		if !has {
			return "thrown-value-lost", fmt.Sprintf("thrown %s arrived as a Go error without ErrorValue: %v", val.Canon(o.Thrown.V), r.Err)
		}
		if got := val.From(ev); !val.Eq(got, o.Thrown.V) {
			return "thrown-value-changed", fmt.Sprintf("thrown %s arrived as %s", val.Canon(o.Thrown.V), val.Canon(got))
		}
		return "", ""
	}
	// a Go error: it must still be a Go error, and the sentinel must be reachable
	_ = has
	_ = ev
	if o.Thrown.Go == "sentinel" && !errors.Is(r.Err, Sentinel) {
		return "go-error-identity-lost", fmt.Sprintf("errors.Is(err, sentinel) is false for %v", r.Err)
	}
	return "", ""
}

func describeThrown(t *refmal.Thrown) string {
	if t.Go != "" {
		return "go error " + t.Go
	}
	return "thrown " + val.Canon(t.V)
}

// CompareTrace returns "" when both effect logs are identical.
func CompareTrace(model []val.V, real []val.V) string {
	n := len(model)
	if len(real) < n {
		n = len(real)
	}
	for i := 0; i < n; i++ {
		if !val.Eq(model[i], real[i]) {
			return fmt.Sprintf("effect #%d: definition %s, implementation %s (definition trace %s, implementation trace %s)", i, val.Canon(model[i]), val.Canon(real[i]), canonList(model), canonList(real))
		}
	}
	if len(model) != len(real) {
		return fmt.Sprintf("definition has %d effects %s, implementation %d %s", len(model), canonList(model), len(real), canonList(real))
	}
	return ""
}

func canonList(xs []val.V) string { return val.Canon(val.V{K: val.Vec, L: xs}) }

// CompareGlobals checks the model's global bindings (natives excluded unless rebound)
// and the absence of the candidate names the model does not bind.
func CompareGlobals(in *refmal.Interp, e types.EnvType, candidates []string) string {
	seen := map[string]bool{}
	for _, n := range in.Global.Names() {
		seen[n] = true
		mv, _ := in.Global.Get(n)
		if mv.K == val.Fn {
			switch mv.F.(type) {
			case *refmal.Native, *refmal.NativeMacro:
				continue
			}
			if n == "not" {
				continue
			}
		}
		rv, ok := Lookup(e, n)
		if !ok {
			return fmt.Sprintf("global %s: definition binds it to %s, implementation has no binding", n, val.Canon(mv))
		}
		if got := val.From(rv); !val.Eq(got, mv) {
			return fmt.Sprintf("global %s: definition %s, implementation %s", n, val.Canon(mv), val.Canon(got))
		}
	}
	for _, n := range candidates {
		if seen[n] {
			continue
		}
		if rv, ok := Lookup(e, n); ok {
			return fmt.Sprintf("global %s: unbound by definition, implementation binds it to %s", n, val.Canon(val.From(rv)))
		}
	}
	return ""
}

// OutcomeOf turns a real result into an outcome the other results can be compared with
// (used where the reference interpreter leaves the outcome unspecified).
func OutcomeOf(r Result) refmal.Outcome {
	if r.Err == nil {
		return refmal.Outcome{Val: val.From(r.Val)}
	}
	if ev, has := ErrorValue(r.Err); has {
		return refmal.Outcome{Thrown: &refmal.Thrown{V: val.From(ev)}}
	}
	return refmal.Outcome{Thrown: &refmal.Thrown{Go: "builtin"}}
}

// CompareResults compares two results of the implementation itself (two runs, two routes):
// same kind, exactly equal value, and for errors the same thrown value or the same Go error
// type; withText also demands the same error text.
func CompareResults(a, b Result, withText bool) (sig, msg string) {
	if a.Panicked || b.Panicked {
		return "panic:" + a.PanicSite + b.PanicSite, fmt.Sprintf("panicked: %v / %v", a.PanicVal, b.PanicVal)
	}
	if (a.Err == nil) != (b.Err == nil) {
		return "kind-differs", fmt.Sprintf("one run returned error %v, the other error %v (values %s / %s)", a.Err, b.Err, val.Canon(val.From(a.Val)), val.Canon(val.From(b.Val)))
	}
	if a.Err == nil {
		if x, y := val.From(a.Val), val.From(b.Val); !val.EqExact(x, y) {
			return "value-differs", fmt.Sprintf("one run returned %s, the other %s", val.Canon(x), val.Canon(y))
		}
		return "", ""
	}
	ea, ha := ErrorValue(a.Err)
	eb, hb := ErrorValue(b.Err)
	if ha != hb {
		return "error-object-differs", fmt.Sprintf("one run failed with %T %v, the other with %T %v", a.Err, a.Err, b.Err, b.Err)
	}
	if ha {
		if x, y := val.From(ea), val.From(eb); !val.EqExact(x, y) {
			return "thrown-value-differs", fmt.Sprintf("one run threw %s, the other %s", val.Canon(x), val.Canon(y))
		}
		return "", ""
	}
	if ta, tb := fmt.Sprintf("%T", a.Err), fmt.Sprintf("%T", b.Err); ta != tb {
		return "error-type-differs", fmt.Sprintf("one run failed with %s %v, the other with %s %v", ta, a.Err, tb, b.Err)
	}
	if withText && a.Err.Error() != b.Err.Error() {
		return "error-text-differs", fmt.Sprintf("one run failed with %q, the other with %q", a.Err.Error(), b.Err.Error())
	}
	return "", ""
}
