// Package box builds fresh interpreter environments and evaluates with panic capture.
package box

import (
	"context"
	"fmt"
	"os"
	"path/filepath"
	"runtime"
	"strings"
	"sync"
	"time"

	"github.com/jig/lisp"
	"github.com/jig/lisp/env"
	"github.com/jig/lisp/lib/assert/nsassert"
	"github.com/jig/lisp/lib/call"
	"github.com/jig/lisp/lib/concurrent/nsconcurrent"
	"github.com/jig/lisp/lib/core/nscore"
	"github.com/jig/lisp/lib/coreextented/nscoreextended"
	"github.com/jig/lisp/types"

	"verifharness/internal/val"
)

// Trace collects the effects of trace! in order.
type Trace struct {
	mu  sync.Mutex
	Log []val.V
	Raw []types.MalType // the Go values as the builtin received them
}

func (t *Trace) add(v val.V, raw types.MalType) {
	t.mu.Lock()
	t.Log = append(t.Log, v)
	t.Raw = append(t.Raw, raw)
	t.mu.Unlock()
}

// Each visits every traced value with the snapshot taken when it was traced and the
// reference that was passed; stop by returning false.
func (t *Trace) Each(f func(i int, snapshot val.V, raw types.MalType) bool) {
	t.mu.Lock()
	defer t.mu.Unlock()
	for i := range t.Log {
		if !f(i, t.Log[i], t.Raw[i]) {
			return
		}
	}
}

// Reset forgets the effects recorded so far.
func (t *Trace) Reset() {
	t.mu.Lock()
	t.Log, t.Raw = nil, nil
	t.mu.Unlock()
}

func (t *Trace) Snapshot() []val.V {
	t.mu.Lock()
	defer t.mu.Unlock()
	return append([]val.V{}, t.Log...)
}

// CoreEnv: fresh environment with the core library only.
func CoreEnv() types.EnvType {
	e := env.NewEnv()
	if err := nscore.Load(e); err != nil {
		panic(err)
	}
	return e
}

// FullEnv: core + load-file + concurrent + extended + assert, as an embedder loads them.
func FullEnv() types.EnvType {
	e := env.NewEnv()
	for _, l := range []func(types.EnvType) error{nscore.Load, nscore.LoadInput, nsconcurrent.Load, nscoreextended.Load, nsassert.Load} {
		if err := l(e); err != nil {
			panic(err)
		}
	}
	return e
}

// Silence redirects the process's stdout to /dev/null (prn/println of library code, stepper output).
var silenceOnce sync.Once

func Silence() {
	silenceOnce.Do(func() {
		if os.Getenv("VERIF_KEEP_STDOUT") != "" {
			return
		}
		f, err := os.OpenFile(os.DevNull, os.O_WRONLY, 0)
		if err == nil {
			RealStdout = os.Stdout
			os.Stdout = f
		}
	})
}

// RealStdout is the original stdout after Silence().
var RealStdout = os.Stdout

// AddTrace registers trace! through the reflective binder, exactly as an embedder would.
func AddTrace(e types.EnvType) *Trace {
	tr := &Trace{}
	call.CallOverrideFN(e, "trace!", func(a types.MalType) (types.MalType, error) {
		tr.add(val.From(a), a)
		return a, nil
	})
	return tr
}

// Result of one evaluation.
type Result struct {
	Val       types.MalType
	Err       error
	Panicked  bool
	PanicVal  any
	PanicSite string
}

func (r Result) IsErr() bool { return r.Err != nil }

// site returns the first frame inside the repository (or the scanner) on the panicking stack.
func site() string {
	pcs := make([]uintptr, 64)
	n := runtime.Callers(3, pcs)
	frames := runtime.CallersFrames(pcs[:n])
	for {
		f, more := frames.Next()
		if strings.Contains(f.Function, "github.com/jig/") {
			fn := f.Function
			if i := strings.LastIndex(fn, "/"); i >= 0 {
				fn = fn[i+1:]
			}
			// closure numbering is unstable across edits: strip .funcN suffixes
			for {
				j := strings.LastIndex(fn, ".func")
				if j < 0 {
					break
				}
				fn = fn[:j]
			}
			return fn + "@" + filepath.Base(f.File)
		}
		if !more {
			break
		}
	}
	return "unknown"
}

// Guard runs f and converts a panic into a Result.
func Guard(f func() (types.MalType, error)) (r Result) {
	defer func() {
		if p := recover(); p != nil {
			r.Panicked = true
			r.PanicVal = p
			r.PanicSite = site()
		}
	}()
	v, err := f()
	return Result{Val: v, Err: err}
}

// Eval evaluates an AST with panic capture.
func Eval(ctx context.Context, ast types.MalType, e types.EnvType) Result {
	return Guard(func() (types.MalType, error) { return lisp.EVAL(ctx, ast, e) })
}

// ReadEval reads text (nil cursor unless module != "") and evaluates it.
func ReadEval(ctx context.Context, text string, e types.EnvType) Result {
	return Guard(func() (types.MalType, error) {
		ast, err := lisp.READ(text, nil, e)
		if err != nil {
			return nil, fmt.Errorf("READ: %w", err)
		}
		return lisp.EVAL(ctx, ast, e)
	})
}

// Ctx returns a context with a generous safety deadline.
func Ctx(d time.Duration) (context.Context, context.CancelFunc) {
	return context.WithTimeout(context.Background(), d)
}

// ErrorValue extracts the thrown lisp value of an error, if it carries one.
func ErrorValue(err error) (types.MalType, bool) {
	if ev, ok := err.(interface{ ErrorValue() types.MalType }); ok {
		return ev.ErrorValue(), true
	}
	return nil, false
}

// Lookup reads a global.
func Lookup(e types.EnvType, name string) (types.MalType, bool) {
	if e.Find(types.Symbol{Val: name}) == nil {
		return nil, false
	}
	v, err := e.Get(types.Symbol{Val: name})
	if err != nil {
		return nil, false
	}
	return v, true
}

// AddSentinels registers the harness builtins that fail with a known Go error:
// raise-go! returns it, panic-go! panics with it, panic-val! panics with a lisp value.
func AddSentinels(e types.EnvType) {
	call.CallOverrideFN(e, "raise-go!", func() (types.MalType, error) { return nil, Sentinel })
	call.CallOverrideFN(e, "panic-go!", func() (types.MalType, error) { panic(Sentinel) })
	call.CallOverrideFN(e, "panic-val!", func(a types.MalType) (types.MalType, error) { panic(a) })
	// bound the raw way (no reflective binder, hence no conversion of the panic): the body of an enclosing
	// try is what recovers it
	e.Set(types.Symbol{Val: "raw-panic-go!"}, types.Func{Fn: func(ctx context.Context, a []types.MalType) (types.MalType, error) { panic(Sentinel) }})
}

// CoreEnvWithAtoms: core plus the concurrent library (atoms, futures).
func CoreEnvWithAtoms() types.EnvType {
	e := CoreEnv()
	if err := nsconcurrent.Load(e); err != nil {
		panic(err)
	}
	return e
}

// ParseForms turns source text into top-level forms using the real reader. Only used
// for hand-written corpus cases ("Src" field), never for generated cases.
func ParseForms(src string) []val.V {
	ast, err := lisp.READ("(do "+src+"\n)", nil, nil)
	if err != nil {
		panic(fmt.Errorf("corpus source does not read: %w", err))
	}
	return val.From(ast).L[1:]
}
