package val

import (
	"sort"
	"strconv"
	"strings"
)

// QuoteStr writes a string literal the reader accepts: only \\ \" and \n are escaped
// (the three escapes the reader un-does); everything else is written raw.
func QuoteStr(s string) string {
	var sb strings.Builder
	sb.WriteByte('"')
	for _, r := range s {
		switch r {
		case '\\':
			sb.WriteString(`\\`)
		case '"':
			sb.WriteString(`\"`)
		case '\n':
			sb.WriteString(`\n`)
		default:
			sb.WriteRune(r)
		}
	}
	sb.WriteByte('"')
	return sb.String()
}

// KeySource is the literal source of a map key / set member.
func KeySource(k string) string {
	if strings.HasPrefix(k, KwMark) {
		return ":" + k[len(KwMark):]
	}
	return QuoteStr(k)
}

// Literal writes v as literal source text (to be used under quote when it contains
// lists or symbols). Map keys are written in sorted order.
func Literal(v V) string {
	var sb strings.Builder
	literal(&sb, v)
	return sb.String()
}

func literal(sb *strings.Builder, v V) {
	switch v.K {
	case Nil:
		sb.WriteString("nil")
	case Bool:
		sb.WriteString(strconv.FormatBool(v.B))
	case Int:
		sb.WriteString(strconv.Itoa(v.I))
	case Str:
		sb.WriteString(QuoteStr(v.S))
	case Kw:
		sb.WriteString(":" + v.S)
	case Sym:
		sb.WriteString(v.S)
	case List, Vec:
		o, c := "(", ")"
		if v.K == Vec {
			o, c = "[", "]"
		}
		sb.WriteString(o)
		for i, e := range v.L {
			if i > 0 {
				sb.WriteByte(' ')
			}
			literal(sb, e)
		}
		sb.WriteString(c)
	case Map:
		keys := make([]string, 0, len(v.M))
		for k := range v.M {
			keys = append(keys, k)
		}
		sort.Strings(keys)
		sb.WriteString("{")
		for i, k := range keys {
			if i > 0 {
				sb.WriteByte(' ')
			}
			sb.WriteString(KeySource(k))
			sb.WriteByte(' ')
			literal(sb, v.M[k])
		}
		sb.WriteString("}")
	case Set:
		sb.WriteString("#{")
		for i, k := range v.St {
			if i > 0 {
				sb.WriteByte(' ')
			}
			sb.WriteString(KeySource(k))
		}
		sb.WriteString("}")
	default:
		panic("val.Literal: kind " + v.K.String())
	}
}

// Quoted is an expression that evaluates to v.
func Quoted(v V) string {
	switch v.K {
	case Nil, Bool, Int, Str, Kw:
		return Literal(v)
	}
	return "(quote " + Literal(v) + ")"
}
