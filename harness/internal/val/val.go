// Package val is the harness's own value universe: a plain tree that mirrors
// lisp data without using any of the interpreter's equality or printing code.
package val

import (
	"fmt"
	"hash/fnv"
	"sort"
	"strconv"
	"strings"

	"github.com/jig/lisp/types"
)

type Kind int

const (
	Nil Kind = iota
	Bool
	Int
	Str
	Kw
	Sym
	List
	Vec
	Map
	Set
	Fn    // any callable (lisp closure or Go builtin)
	GoErr // a Go error value
	Atom
	Other // anything else (type name in S)
)

var kindNames = [...]string{"nil", "bool", "int", "str", "kw", "sym", "list", "vec", "map", "set", "fn", "goerr", "atom", "other"}

func (k Kind) String() string { return kindNames[k] }

// V is one value. Map keys and set members are the interpreter's key strings:
// a keyword key carries the U+029E prefix, exactly as in the implementation.
type V struct {
	K  Kind         `json:"k"`
	B  bool         `json:"b,omitempty"`
	I  int          `json:"i,omitempty"`
	S  string       `json:"s,omitempty"`  // Str, Kw (without marker), Sym, Other(type name)
	L  []V          `json:"l,omitempty"`  // List, Vec
	M  map[string]V `json:"m,omitempty"`  // Map
	St []string     `json:"st,omitempty"` // Set (sorted)
	T  string       `json:"t,omitempty"`  // GoErr coming from the implementation: the error's text (compared by EqExact only)
	F  any          `json:"-"`            // reference interpreter only: the callable behind a Fn
}

const KwMark = "\u029e"

func N() V               { return V{K: Nil} }
func B(b bool) V         { return V{K: Bool, B: b} }
func I(i int) V          { return V{K: Int, I: i} }
func S(s string) V       { return V{K: Str, S: s} }
func K(s string) V       { return V{K: Kw, S: s} }
func Y(s string) V       { return V{K: Sym, S: s} }
func L(xs ...V) V        { return V{K: List, L: append([]V{}, xs...)} }
func Vc(xs ...V) V       { return V{K: Vec, L: append([]V{}, xs...)} }
func M(m map[string]V) V { return V{K: Map, M: m} }
func SetOf(xs ...string) V {
	seen := map[string]bool{}
	out := []string{}
	for _, x := range xs {
		if !seen[x] {
			seen[x] = true
			out = append(out, x)
		}
	}
	sort.Strings(out)
	return V{K: Set, St: out}
}

// KeyOf returns the interpreter key string for a Str or Kw value.
func KeyOf(v V) (string, bool) {
	switch v.K {
	case Str:
		return v.S, true
	case Kw:
		return KwMark + v.S, true
	}
	return "", false
}

// FromKey converts an interpreter key string back into a Str or Kw value.
func FromKey(k string) V {
	if strings.HasPrefix(k, KwMark) {
		return K(k[len(KwMark):])
	}
	return S(k)
}

// From converts an interpreter value. Cursors and metadata are ignored.
func From(x types.MalType) V { return from(x, 0) }

func from(x types.MalType, depth int) V {
	if depth > 200 {
		return V{K: Other, S: "too-deep"}
	}
	switch t := x.(type) {
	case nil:
		return N()
	case bool:
		return B(t)
	case int:
		return I(t)
	case string:
		return FromKey(t)
	case types.Symbol:
		return Y(t.Val)
	case types.List:
		out := make([]V, len(t.Val))
		for i, e := range t.Val {
			out[i] = from(e, depth+1)
		}
		return V{K: List, L: out}
	case types.Vector:
		out := make([]V, len(t.Val))
		for i, e := range t.Val {
			out[i] = from(e, depth+1)
		}
		return V{K: Vec, L: out}
	case types.HashMap:
		m := make(map[string]V, len(t.Val))
		for k, e := range t.Val {
			m[k] = from(e, depth+1)
		}
		return V{K: Map, M: m}
	case types.Set:
		out := make([]string, 0, len(t.Val))
		for k := range t.Val {
			out = append(out, k)
		}
		sort.Strings(out)
		return V{K: Set, St: out}
	case types.MalFunc, types.Func:
		return V{K: Fn}
	case error:
		return V{K: GoErr, S: fmt.Sprintf("%T", t), T: t.Error()}
	default:
		tn := fmt.Sprintf("%T", x)
		if strings.HasSuffix(tn, ".Atom") {
			return V{K: Atom}
		}
		return V{K: Other, S: tn}
	}
}

// To builds an interpreter value (no cursors). Fn/GoErr/Atom/Other cannot be built.
func To(v V) types.MalType {
	switch v.K {
	case Nil:
		return nil
	case Bool:
		return v.B
	case Int:
		return v.I
	case Str:
		return v.S
	case Kw:
		return KwMark + v.S
	case Sym:
		return types.Symbol{Val: v.S}
	case List:
		out := make([]types.MalType, len(v.L))
		for i, e := range v.L {
			out[i] = To(e)
		}
		return types.List{Val: out}
	case Vec:
		out := make([]types.MalType, len(v.L))
		for i, e := range v.L {
			out[i] = To(e)
		}
		return types.Vector{Val: out}
	case Map:
		m := make(map[string]types.MalType, len(v.M))
		for k, e := range v.M {
			m[k] = To(e)
		}
		return types.HashMap{Val: m}
	case Set:
		m := make(map[string]struct{}, len(v.St))
		for _, k := range v.St {
			m[k] = struct{}{}
		}
		return types.Set{Val: m}
	}
	panic("val.To: cannot build kind " + v.K.String())
}

// ToZero is To with every empty collection left as its Go zero value (nil slice, nil map),
// which is what an embedder gets from types.List{}, types.HashMap{} or types.Set{}.
func ToZero(v V) types.MalType {
	switch v.K {
	case List:
		if len(v.L) == 0 {
			return types.List{}
		}
		out := make([]types.MalType, len(v.L))
		for i, e := range v.L {
			out[i] = ToZero(e)
		}
		return types.List{Val: out}
	case Vec:
		if len(v.L) == 0 {
			return types.Vector{}
		}
		out := make([]types.MalType, len(v.L))
		for i, e := range v.L {
			out[i] = ToZero(e)
		}
		return types.Vector{Val: out}
	case Map:
		if len(v.M) == 0 {
			return types.HashMap{}
		}
		m := make(map[string]types.MalType, len(v.M))
		for k, e := range v.M {
			m[k] = ToZero(e)
		}
		return types.HashMap{Val: m}
	case Set:
		if len(v.St) == 0 {
			return types.Set{}
		}
	}
	return To(v)
}

// Eq is strict structural equality: list != vector, nil != ().
func Eq(a, b V) bool { return eq(a, b, false) }

// EqLisp is the structural equality the language's = is specified to be:
// a list and a vector with pairwise equal elements are equal.
func EqLisp(a, b V) bool { return eq(a, b, true) }

// EqExact is Eq for comparing two results of the implementation with each other: a Go error
// object only equals a Go error object of the same Go type (Eq lets it match a string, because
// the definition does not say which of the two a failing builtin delivers).
func EqExact(a, b V) bool {
	if a.K == GoErr || b.K == GoErr {
		return a.K == b.K && a.S == b.S && a.T == b.T
	}
	if a.K != b.K {
		return false
	}
	switch a.K {
	case List, Vec:
		if len(a.L) != len(b.L) {
			return false
		}
		for i := range a.L {
			if !EqExact(a.L[i], b.L[i]) {
				return false
			}
		}
		return true
	case Map:
		if len(a.M) != len(b.M) {
			return false
		}
		for k, x := range a.M {
			y, ok := b.M[k]
			if !ok || !EqExact(x, y) {
				return false
			}
		}
		return true
	}
	return Eq(a, b)
}

func eq(a, b V, seqLoose bool) bool {
	ak, bk := a.K, b.K
	if seqLoose {
		if ak == Vec {
			ak = List
		}
		if bk == Vec {
			bk = List
		}
	}
	// a Go error is opaque: which error it is, is checked separately with errors.Is.
	// A builtin that fails inside the reflective call panics with a plain string, which
	// arrives as a lisp string: also "the failure object of a builtin".
	if ak == GoErr || bk == GoErr {
		o := bk
		if ak != GoErr {
			o = ak
		}
		return o == GoErr || o == Str
	}
	if ak != bk {
		return false
	}
	switch a.K {
	case Nil:
		return true
	case Bool:
		return a.B == b.B
	case Int:
		return a.I == b.I
	case Str, Kw, Sym, Other:
		return a.S == b.S
	case GoErr:
		return true // which Go error it is, is checked separately with errors.Is
	case List, Vec:
		if len(a.L) != len(b.L) {
			return false
		}
		for i := range a.L {
			if !eq(a.L[i], b.L[i], seqLoose) {
				return false
			}
		}
		return true
	case Map:
		if len(a.M) != len(b.M) {
			return false
		}
		for k, av := range a.M {
			bv, ok := b.M[k]
			if !ok || !eq(av, bv, seqLoose) {
				return false
			}
		}
		return true
	case Set:
		if len(a.St) != len(b.St) {
			return false
		}
		for i := range a.St {
			if a.St[i] != b.St[i] {
				return false
			}
		}
		return true
	case Fn, Atom:
		return true
	}
	return false
}

// Canon is a canonical text (sorted map keys); for evidence, hashing and messages only.
func Canon(v V) string {
	var sb strings.Builder
	canon(&sb, v)
	return sb.String()
}

func canon(sb *strings.Builder, v V) {
	switch v.K {
	case Nil:
		sb.WriteString("nil")
	case Bool:
		sb.WriteString(strconv.FormatBool(v.B))
	case Int:
		sb.WriteString(strconv.Itoa(v.I))
	case Str:
		sb.WriteString(strconv.Quote(v.S))
	case Kw:
		sb.WriteString(":" + v.S)
	case Sym:
		sb.WriteString(v.S)
	case List, Vec:
		o, c := "(", ")"
		if v.K == Vec {
			o, c = "[", "]"
		}
		sb.WriteString(o)
		for i, e := range v.L {
			if i > 0 {
				sb.WriteByte(' ')
			}
			canon(sb, e)
		}
		sb.WriteString(c)
	case Map:
		keys := make([]string, 0, len(v.M))
		for k := range v.M {
			keys = append(keys, k)
		}
		sort.Strings(keys)
		sb.WriteString("{")
		for i, k := range keys {
			if i > 0 {
				sb.WriteByte(' ')
			}
			canon(sb, FromKey(k))
			sb.WriteByte(' ')
			canon(sb, v.M[k])
		}
		sb.WriteString("}")
	case Set:
		sb.WriteString("#{")
		for i, k := range v.St {
			if i > 0 {
				sb.WriteByte(' ')
			}
			canon(sb, FromKey(k))
		}
		sb.WriteString("}")
	case Fn:
		sb.WriteString("<fn>")
	case Atom:
		sb.WriteString("<atom>")
	case GoErr:
		sb.WriteString("<goerr " + v.S + ">")
	default:
		sb.WriteString("<other " + v.S + ">")
	}
}

func Hash(s string) uint64 {
	h := fnv.New64a()
	h.Write([]byte(s))
	return h.Sum64()
}

// Depth is the nesting depth (scalars 0).
func Depth(v V) int {
	d := 0
	switch v.K {
	case List, Vec:
		for _, e := range v.L {
			if x := Depth(e) + 1; x > d {
				d = x
			}
		}
		if d == 0 {
			d = 1
		}
	case Map:
		d = 1
		for _, e := range v.M {
			if x := Depth(e) + 1; x > d {
				d = x
			}
		}
	case Set:
		d = 1
	}
	return d
}
