package refmal

import (
	"verifharness/internal/val"
)

func nat(in *Interp, name string, f func(in *Interp, a []val.V) (val.V, *Thrown)) {
	in.Global.Set(name, val.V{K: val.Fn, F: &Native{Name: name, Fn: f}})
}

func natMacro(in *Interp, name string, f func(in *Interp, ops []val.V, env *Env) (val.V, *Thrown)) {
	in.Global.Set(name, val.V{K: val.Fn, F: &NativeMacro{Name: name, Fn: f}})
}

var bad = GoErr("builtin")

func isSeq(v val.V) bool { return v.K == val.List || v.K == val.Vec }

func ints(a []val.V, n int) bool {
	if len(a) != n {
		return false
	}
	for _, x := range a {
		if x.K != val.Int {
			return false
		}
	}
	return true
}

func hasFn(v val.V) bool {
	switch v.K {
	case val.Fn, val.GoErr, val.Atom, val.Other:
		return true
	case val.List, val.Vec:
		for _, e := range v.L {
			if hasFn(e) {
				return true
			}
		}
	case val.Map:
		for _, e := range v.M {
			if hasFn(e) {
				return true
			}
		}
	}
	return false
}

// RegisterSentinels adds the harness builtins used by C03.
func RegisterSentinels(in *Interp) {
	nat(in, "raise-go!", func(in *Interp, a []val.V) (val.V, *Thrown) {
		if len(a) != 0 {
			return val.V{}, bad
		}
		return val.V{}, GoErr("sentinel")
	})
	nat(in, "panic-go!", func(in *Interp, a []val.V) (val.V, *Thrown) {
		if len(a) != 0 {
			return val.V{}, bad
		}
		return val.V{}, GoErr("sentinel")
	})
	nat(in, "raw-panic-go!", func(in *Interp, a []val.V) (val.V, *Thrown) {
		// bound without the reflective binder: arguments are not checked, the panic is not converted
		return val.V{}, &Thrown{Go: "raw-sentinel", Raw: true}
	})
	nat(in, "panic-val!", func(in *Interp, a []val.V) (val.V, *Thrown) {
		if len(a) != 1 {
			return val.V{}, bad
		}
		if a[0].K == val.GoErr {
			return val.V{}, GoErr(a[0].S)
		}
		if a[0].K == val.Nil {
			// Go turns panic(nil) into a *runtime.PanicNilError: a Go error, not the value nil
			return val.V{}, GoErr("builtin")
		}
		return val.V{}, &Thrown{V: a[0]}
	})
}

func installNatives(in *Interp) {
	arith := func(name string, f func(x, y int) (int, bool)) {
		nat(in, name, func(in *Interp, a []val.V) (val.V, *Thrown) {
			if !ints(a, 2) {
				return val.V{}, bad
			}
			r, ok := f(a[0].I, a[1].I)
			if !ok {
				return val.V{}, bad
			}
			return val.I(r), nil
		})
	}
	arith("+", func(x, y int) (int, bool) { return x + y, true })
	arith("-", func(x, y int) (int, bool) { return x - y, true })
	arith("*", func(x, y int) (int, bool) { return x * y, true })
	arith("/", func(x, y int) (int, bool) {
		if y == 0 {
			return 0, false
		}
		return x / y, true
	})
	cmp := func(name string, f func(x, y int) bool) {
		nat(in, name, func(in *Interp, a []val.V) (val.V, *Thrown) {
			if !ints(a, 2) {
				return val.V{}, bad
			}
			return val.B(f(a[0].I, a[1].I)), nil
		})
	}
	cmp("<", func(x, y int) bool { return x < y })
	cmp("<=", func(x, y int) bool { return x <= y })
	cmp(">", func(x, y int) bool { return x > y })
	cmp(">=", func(x, y int) bool { return x >= y })

	nat(in, "=", func(in *Interp, a []val.V) (val.V, *Thrown) {
		if len(a) != 2 {
			return val.V{}, bad
		}
		if hasFn(a[0]) || hasFn(a[1]) {
			in.Unspecified("= on functions or errors")
		}
		return val.B(val.EqLisp(a[0], a[1])), nil
	})
	nat(in, "list", func(in *Interp, a []val.V) (val.V, *Thrown) {
		return val.V{K: val.List, L: append([]val.V{}, a...)}, nil
	})
	nat(in, "vector", func(in *Interp, a []val.V) (val.V, *Thrown) {
		return val.V{K: val.Vec, L: append([]val.V{}, a...)}, nil
	})
	nat(in, "cons", func(in *Interp, a []val.V) (val.V, *Thrown) {
		if len(a) != 2 || !isSeq(a[1]) {
			return val.V{}, bad
		}
		return val.V{K: val.List, L: append([]val.V{a[0]}, a[1].L...)}, nil
	})
	nat(in, "conj", func(in *Interp, a []val.V) (val.V, *Thrown) {
		if len(a) < 2 {
			return val.V{}, bad
		}
		switch a[0].K {
		case val.Vec:
			return val.V{K: val.Vec, L: append(append([]val.V{}, a[0].L...), a[1:]...)}, nil
		case val.List:
			out := append([]val.V{}, a[0].L...)
			for _, x := range a[1:] {
				out = append([]val.V{x}, out...)
			}
			return val.V{K: val.List, L: out}, nil
		}
		in.Unspecified("conj on a non-sequence")
		return val.V{}, nil
	})
	nat(in, "concat", func(in *Interp, a []val.V) (val.V, *Thrown) {
		out := []val.V{}
		for _, x := range a {
			if !isSeq(x) {
				return val.V{}, bad
			}
			out = append(out, x.L...)
		}
		return val.V{K: val.List, L: out}, nil
	})
	nat(in, "vec", func(in *Interp, a []val.V) (val.V, *Thrown) {
		if len(a) != 1 {
			return val.V{}, bad
		}
		switch a[0].K {
		case val.List, val.Vec:
			return val.V{K: val.Vec, L: append([]val.V{}, a[0].L...)}, nil
		case val.Set:
			in.Unspecified("vec of a set: element order")
		}
		return val.V{}, bad
	})
	nat(in, "first", func(in *Interp, a []val.V) (val.V, *Thrown) {
		if len(a) != 1 {
			return val.V{}, bad
		}
		if a[0].K == val.Nil {
			return val.N(), nil
		}
		if !isSeq(a[0]) {
			return val.V{}, bad
		}
		if len(a[0].L) == 0 {
			return val.N(), nil
		}
		return a[0].L[0], nil
	})
	nat(in, "rest", func(in *Interp, a []val.V) (val.V, *Thrown) {
		if len(a) != 1 {
			return val.V{}, bad
		}
		if a[0].K == val.Nil {
			return val.L(), nil
		}
		if !isSeq(a[0]) {
			return val.V{}, bad
		}
		if len(a[0].L) == 0 {
			return val.L(), nil
		}
		return val.V{K: val.List, L: append([]val.V{}, a[0].L[1:]...)}, nil
	})
	nat(in, "count", func(in *Interp, a []val.V) (val.V, *Thrown) {
		if len(a) != 1 {
			return val.V{}, bad
		}
		switch a[0].K {
		case val.Nil:
			return val.I(0), nil
		case val.List, val.Vec:
			return val.I(len(a[0].L)), nil
		case val.Map:
			return val.I(len(a[0].M)), nil
		case val.Set:
			return val.I(len(a[0].St)), nil
		}
		return val.V{}, bad
	})
	nat(in, "empty?", func(in *Interp, a []val.V) (val.V, *Thrown) {
		if len(a) != 1 {
			return val.V{}, bad
		}
		switch a[0].K {
		case val.Nil:
			return val.B(true), nil
		case val.List, val.Vec:
			return val.B(len(a[0].L) == 0), nil
		case val.Map:
			return val.B(len(a[0].M) == 0), nil
		case val.Set:
			return val.B(len(a[0].St) == 0), nil
		}
		return val.V{}, bad
	})
	nat(in, "nth", func(in *Interp, a []val.V) (val.V, *Thrown) {
		if len(a) != 2 || !isSeq(a[0]) || a[1].K != val.Int {
			return val.V{}, bad
		}
		if a[1].I < 0 || a[1].I >= len(a[0].L) {
			return val.V{}, bad
		}
		return a[0].L[a[1].I], nil
	})
	nat(in, "nil?", func(in *Interp, a []val.V) (val.V, *Thrown) {
		if len(a) != 1 {
			return val.V{}, bad
		}
		return val.B(a[0].K == val.Nil), nil
	})
	// not is a lisp function in the implementation: (def not (fn (a) (if a false true)))
	in.Global.Set("not", val.V{K: val.Fn, F: &Closure{Params: []string{"a"}, Env: in.Global,
		Body: []val.V{val.L(val.Y("if"), val.Y("a"), val.B(false), val.B(true))}}})
	nat(in, "apply", func(in *Interp, a []val.V) (val.V, *Thrown) {
		if len(a) < 2 || !isSeq(a[len(a)-1]) {
			return val.V{}, bad
		}
		args := append([]val.V{}, a[1:len(a)-1]...)
		args = append(args, a[len(a)-1].L...)
		if a[0].K != val.Fn {
			return val.V{}, bad
		}
		return in.Apply(a[0], args, false)
	})
	nat(in, "map", func(in *Interp, a []val.V) (val.V, *Thrown) {
		if len(a) != 2 || !isSeq(a[1]) {
			return val.V{}, bad
		}
		out := []val.V{}
		for _, x := range a[1].L {
			if a[0].K != val.Fn {
				return val.V{}, bad
			}
			v, t := in.Apply(a[0], []val.V{x}, false)
			if t != nil {
				return val.V{}, t
			}
			out = append(out, v)
		}
		return val.V{K: val.List, L: out}, nil
	})
	nat(in, "throw", func(in *Interp, a []val.V) (val.V, *Thrown) {
		if len(a) != 1 {
			return val.V{}, bad
		}
		if a[0].K == val.GoErr {
			return val.V{}, GoErr(a[0].S)
		}
		return val.V{}, &Thrown{V: a[0]}
	})
	nat(in, "trace!", func(in *Interp, a []val.V) (val.V, *Thrown) {
		if len(a) != 1 {
			return val.V{}, bad
		}
		in.Trace = append(in.Trace, a[0])
		return a[0], nil
	})

	// library macros, evaluated directly according to their documented expansion
	natMacro(in, "cond", func(in *Interp, ops []val.V, env *Env) (val.V, *Thrown) {
		for i := 0; i < len(ops); i += 2 {
			if i+1 >= len(ops) {
				// (throw "odd number of forms to cond") is evaluated while expanding the
				// innermost cond, i.e. only when every earlier test was falsy
				return val.V{}, &Thrown{V: val.S("odd number of forms to cond")}
			}
			c, t := in.Eval(ops[i], env)
			if t != nil {
				return val.V{}, t
			}
			if truthy(c) {
				return in.Eval(ops[i+1], env)
			}
		}
		return val.N(), nil
	})
	natMacro(in, "and", func(in *Interp, ops []val.V, env *Env) (val.V, *Thrown) {
		if len(ops) == 0 {
			return val.B(true), nil
		}
		var v val.V
		for _, o := range ops {
			var t *Thrown
			v, t = in.Eval(o, env)
			if t != nil {
				return val.V{}, t
			}
			if !truthy(v) {
				return v, nil
			}
		}
		return v, nil
	})
	natMacro(in, "or", func(in *Interp, ops []val.V, env *Env) (val.V, *Thrown) {
		v := val.N()
		for _, o := range ops {
			var t *Thrown
			v, t = in.Eval(o, env)
			if t != nil {
				return val.V{}, t
			}
			if truthy(v) {
				return v, nil
			}
		}
		return v, nil
	})
	thread := func(first bool) func(in *Interp, ops []val.V, env *Env) (val.V, *Thrown) {
		return func(in *Interp, ops []val.V, env *Env) (val.V, *Thrown) {
			if len(ops) == 0 {
				return val.V{}, GoErr("arity-few")
			}
			acc := ops[0]
			for _, f := range ops[1:] {
				if f.K == val.List {
					if len(f.L) == 0 {
						in.Unspecified("threading through an empty list")
					}
					if first {
						n := append([]val.V{f.L[0], acc}, f.L[1:]...)
						acc = val.V{K: val.List, L: n}
					} else {
						n := append(append([]val.V{}, f.L...), acc)
						acc = val.V{K: val.List, L: n}
					}
				} else {
					acc = val.L(f, acc)
				}
			}
			return in.Eval(acc, env)
		}
	}
	natMacro(in, "->", thread(true))
	natMacro(in, "->>", thread(false))
}

// AtomCell is the state behind an atom value of the reference interpreter.
type AtomCell struct{ V val.V }

// RegisterAtoms adds atom, deref (of atoms), reset! and swap! for single-threaded programs. An update
// function that re-sets the atom it is applied to and then returns normally is not defined here (the
// implementation re-applies it).
func RegisterAtoms(in *Interp) {
	cell := func(v val.V) *AtomCell {
		if v.K != val.Atom {
			return nil
		}
		c, _ := v.F.(*AtomCell)
		return c
	}
	nat(in, "atom", func(in *Interp, a []val.V) (val.V, *Thrown) {
		if len(a) != 1 {
			return val.V{}, bad
		}
		return val.V{K: val.Atom, F: &AtomCell{V: a[0]}}, nil
	})
	nat(in, "deref", func(in *Interp, a []val.V) (val.V, *Thrown) {
		if len(a) != 1 {
			return val.V{}, bad
		}
		c := cell(a[0])
		if c == nil {
			in.Unspecified("deref of a non-atom")
		}
		return c.V, nil
	})
	nat(in, "reset!", func(in *Interp, a []val.V) (val.V, *Thrown) {
		if len(a) != 2 {
			return val.V{}, bad
		}
		c := cell(a[0])
		if c == nil {
			return val.V{}, bad
		}
		c.V = a[1]
		return a[1], nil
	})
	nat(in, "swap!", func(in *Interp, a []val.V) (val.V, *Thrown) {
		if len(a) < 2 {
			return val.V{}, bad
		}
		c := cell(a[0])
		if c == nil {
			return val.V{}, bad
		}
		before := c
		old := c.V
		v, t := in.Apply(a[1], append([]val.V{old}, a[2:]...), false)
		if t != nil {
			return val.V{}, t // the atom keeps whatever it holds now
		}
		if !val.Eq(before.V, old) {
			in.Unspecified("update function changed the atom it is applied to")
		}
		c.V = v
		return v, nil
	})
}
