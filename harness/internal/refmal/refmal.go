// Package refmal is the language definition as an executable reference: a naive,
// non-TCO, environment-passing interpreter over val.V, written from the mal guide
// and the README amendments. It never calls the implementation under test.
package refmal

import (
	"sort"

	"verifharness/internal/val"
)

type Env struct {
	vars  map[string]val.V
	outer *Env
}

func NewEnv(outer *Env) *Env { return &Env{vars: map[string]val.V{}, outer: outer} }

func (e *Env) Find(name string) *Env {
	for s := e; s != nil; s = s.outer {
		if _, ok := s.vars[name]; ok {
			return s
		}
	}
	return nil
}

func (e *Env) Get(name string) (val.V, bool) {
	if s := e.Find(name); s != nil {
		return s.vars[name], true
	}
	return val.V{}, false
}

func (e *Env) Set(name string, v val.V) { e.vars[name] = v }

// Names of the bindings held directly in this scope.
func (e *Env) Names() []string {
	out := make([]string, 0, len(e.vars))
	for k := range e.vars {
		out = append(out, k)
	}
	sort.Strings(out)
	return out
}

type Closure struct {
	Params  []string
	Rest    string
	HasRest bool
	Body    []val.V
	Env     *Env
	Macro   bool
}

// Native is a builtin of the model.
type Native struct {
	Name string
	Fn   func(in *Interp, args []val.V) (val.V, *Thrown)
}

// NativeMacro receives operand forms and the calling scope and evaluates the
// documented expansion directly.
type NativeMacro struct {
	Name string
	Fn   func(in *Interp, ops []val.V, env *Env) (val.V, *Thrown)
}

// Thrown is an error travelling up: a lisp datum, or a Go error with an identity tag.
type Thrown struct {
	V  val.V
	Go string // non-empty: a Go error ("builtin", "sentinel", "unbound", "call", ...)
	// Raw: a Go panic raised by an embedder function bound WITHOUT the reflective binder. It travels as a
	// panic until the body of an enclosing try recovers it (from then on it is an ordinary error); what
	// happens when it passes through a builtin, leaves a finally body or reaches the host is not defined here.
	Raw bool
}

// AsValue is what a catch clause binds.
func (t *Thrown) AsValue() val.V {
	if t.Go != "" {
		return val.V{K: val.GoErr, S: t.Go}
	}
	return t.V
}

func GoErr(tag string) *Thrown { return &Thrown{Go: tag} }

type Lookup struct {
	Name    string
	Val     val.V
	Unbound bool
}

type abort struct{ why string }

type Interp struct {
	Global   *Env
	Fuel     int
	depth    int
	MaxDepth int
	Trace    []val.V
	Lookups  []Lookup
	LogVar   func(name string) bool
	Aborted  string // "", "fuel", "depth", "unspecified:..."
}

// Unspecified aborts the run: the definition does not say what happens here.
func (in *Interp) Unspecified(why string) { panic(abort{"unspecified:" + why}) }

func New() *Interp {
	in := &Interp{Global: NewEnv(nil), Fuel: 200000, MaxDepth: 400}
	installNatives(in)
	return in
}

// Outcome of a whole program.
type Outcome struct {
	Val     val.V
	Thrown  *Thrown
	Aborted string
}

// Run evaluates the top-level forms in order in the global scope; the value is that of the last one.
func (in *Interp) Run(forms []val.V) (out Outcome) {
	defer func() {
		if r := recover(); r != nil {
			if a, ok := r.(abort); ok {
				in.Aborted = a.why
				out = Outcome{Aborted: a.why}
				return
			}
			panic(r)
		}
	}()
	var last val.V
	for _, f := range forms {
		v, t := in.Eval(f, in.Global)
		if t != nil {
			if t.Raw {
				in.Unspecified("raw panic reaches the host")
			}
			return Outcome{Thrown: t}
		}
		last = v
	}
	return Outcome{Val: last}
}

func (in *Interp) tick() {
	in.Fuel--
	if in.Fuel < 0 {
		panic(abort{"fuel"})
	}
}

func truthy(v val.V) bool { return !(v.K == val.Nil || (v.K == val.Bool && !v.B)) }

func headIs(x val.V, name string) bool {
	return x.K == val.List && len(x.L) > 0 && x.L[0].K == val.Sym && x.L[0].S == name
}

func (in *Interp) macroOf(x val.V, env *Env) (any, bool) {
	if x.K != val.List || len(x.L) == 0 || x.L[0].K != val.Sym {
		return nil, false
	}
	v, ok := env.Get(x.L[0].S)
	if !ok || v.K != val.Fn {
		return nil, false
	}
	switch f := v.F.(type) {
	case *Closure:
		if f.Macro {
			return f, true
		}
	case *NativeMacro:
		return f, true
	}
	return nil, false
}

// Expand performs macroexpand: repeated expansion while the head is a macro.
// Native macros of the model (cond and or -> ->>) are not expanded here.
func (in *Interp) Expand(x val.V, env *Env) (val.V, *Thrown) {
	for {
		m, ok := in.macroOf(x, env)
		if !ok {
			return x, nil
		}
		c, isC := m.(*Closure)
		if !isC {
			in.Unspecified("macroexpand of a library macro")
		}
		in.tick()
		r, t := in.applyClosure(c, x.L[1:])
		if t != nil {
			return val.V{}, t
		}
		x = r
	}
}

func (in *Interp) Eval(x val.V, env *Env) (val.V, *Thrown) {
	in.tick()
	in.depth++
	if in.depth > in.MaxDepth {
		panic(abort{"depth"})
	}
	defer func() { in.depth-- }()

	switch x.K {
	case val.Sym:
		v, ok := env.Get(x.S)
		if in.LogVar != nil && in.LogVar(x.S) {
			in.Lookups = append(in.Lookups, Lookup{Name: x.S, Val: v, Unbound: !ok})
		}
		if !ok {
			return val.V{}, GoErr("unbound")
		}
		return v, nil
	case val.Vec:
		out := make([]val.V, len(x.L))
		for i, e := range x.L {
			v, t := in.Eval(e, env)
			if t != nil {
				return val.V{}, t
			}
			out[i] = v
		}
		return val.V{K: val.Vec, L: out}, nil
	case val.Map:
		keys := make([]string, 0, len(x.M))
		for k := range x.M {
			keys = append(keys, k)
		}
		sort.Strings(keys) // order unspecified by the implementation; generators put at most one effect in a map
		m := make(map[string]val.V, len(keys))
		for _, k := range keys {
			v, t := in.Eval(x.M[k], env)
			if t != nil {
				return val.V{}, t
			}
			m[k] = v
		}
		return val.M(m), nil
	case val.List:
	default:
		return x, nil
	}

	// macro expansion
	for {
		m, ok := in.macroOf(x, env)
		if !ok {
			break
		}
		switch f := m.(type) {
		case *Closure:
			in.tick()
			r, t := in.applyClosure(f, x.L[1:])
			if t != nil {
				return val.V{}, t
			}
			x = r
		case *NativeMacro:
			return f.Fn(in, x.L[1:], env)
		}
		if x.K != val.List {
			return in.Eval(x, env)
		}
	}
	if len(x.L) == 0 {
		return x, nil
	}
	ops := x.L[1:]
	op := func(i int) val.V {
		if i < len(ops) {
			return ops[i]
		}
		return val.N()
	}
	if x.L[0].K == val.Sym {
		switch x.L[0].S {
		case "def":
			v, t := in.Eval(op(1), env)
			if t != nil {
				return val.V{}, t
			}
			if op(0).K != val.Sym {
				return val.V{}, GoErr("def-non-symbol")
			}
			env.Set(op(0).S, v)
			return v, nil
		case "let":
			b := op(0)
			if b.K != val.List && b.K != val.Vec {
				return val.V{}, GoErr("let-bindings")
			}
			if len(b.L)%2 != 0 {
				return val.V{}, GoErr("let-odd")
			}
			le := NewEnv(env)
			for i := 0; i < len(b.L); i += 2 {
				if b.L[i].K != val.Sym {
					return val.V{}, GoErr("let-non-symbol")
				}
				v, t := in.Eval(b.L[i+1], le)
				if t != nil {
					return val.V{}, t
				}
				le.Set(b.L[i].S, v)
			}
			return in.evalBody(ops[1:], le)
		case "quote":
			return op(0), nil
		case "quasiquote":
			if len(ops) < 1 {
				in.Unspecified("quasiquote without operand")
			}
			return in.quasi(ops[0], env)
		case "quasiquoteexpand":
			in.Unspecified("quasiquoteexpand")
		case "defmacro":
			if len(ops) < 2 || ops[0].K != val.Sym {
				in.Unspecified("malformed defmacro")
			}
			v, t := in.Eval(ops[1], env)
			if t != nil {
				return val.V{}, t
			}
			c, ok := v.F.(*Closure)
			if v.K != val.Fn || !ok {
				in.Unspecified("defmacro of a non-closure")
			}
			mc := *c
			mc.Macro = true
			mv := val.V{K: val.Fn, F: &mc}
			env.Set(ops[0].S, mv)
			return mv, nil
		case "macroexpand":
			return in.Expand(op(0), env)
		case "try":
			return in.evalTry(ops, env)
		case "do":
			return in.evalBody(ops, env)
		case "if":
			c, t := in.Eval(op(0), env)
			if t != nil {
				return val.V{}, t
			}
			if truthy(c) {
				return in.Eval(op(1), env)
			}
			if len(ops) >= 3 {
				return in.Eval(ops[2], env)
			}
			return val.N(), nil
		case "fn":
			p := op(0)
			if p.K != val.List && p.K != val.Vec {
				in.Unspecified("fn parameter list is not a sequence")
			}
			c := &Closure{Env: env}
			if len(ops) > 1 {
				c.Body = ops[1:]
			}
			for i := 0; i < len(p.L); i++ {
				if p.L[i].K != val.Sym {
					in.Unspecified("non-symbol parameter")
				}
				if p.L[i].S == "&" {
					if i+1 >= len(p.L) || p.L[i+1].K != val.Sym {
						in.Unspecified("& without name")
					}
					c.HasRest = true
					c.Rest = p.L[i+1].S
					break
				}
				c.Params = append(c.Params, p.L[i].S)
			}
			return val.V{K: val.Fn, F: c}, nil
		}
	}
	// application: head and operands evaluated once each, left to right
	vals := make([]val.V, len(x.L))
	for i, e := range x.L {
		v, t := in.Eval(e, env)
		if t != nil {
			return val.V{}, t
		}
		vals[i] = v
	}
	return in.Apply(vals[0], vals[1:], true)
}

func (in *Interp) evalBody(forms []val.V, env *Env) (val.V, *Thrown) {
	last := val.N()
	for _, f := range forms {
		v, t := in.Eval(f, env)
		if t != nil {
			return val.V{}, t
		}
		last = v
	}
	return last, nil
}

// Apply calls a function value. direct: called from an application form (a
// non-function is then an error); from apply/map the rule is the same.
func (in *Interp) Apply(f val.V, args []val.V, direct bool) (val.V, *Thrown) {
	if f.K != val.Fn {
		return val.V{}, GoErr("call-non-function")
	}
	switch c := f.F.(type) {
	case *Closure:
		v, t := in.applyClosure(c, args)
		if t != nil && t.Raw && !direct {
			in.Unspecified("raw panic passes through a builtin")
		}
		return v, t
	case *Native:
		in.tick()
		return c.Fn(in, args)
	case *NativeMacro:
		in.Unspecified("library macro used as a function")
	}
	in.Unspecified("unknown callable")
	return val.V{}, nil
}

func (in *Interp) applyClosure(c *Closure, args []val.V) (val.V, *Thrown) {
	e := NewEnv(c.Env)
	if len(args) < len(c.Params) {
		return val.V{}, GoErr("arity-few")
	}
	if !c.HasRest && len(args) > len(c.Params) {
		return val.V{}, GoErr("arity-many")
	}
	for i, p := range c.Params {
		e.Set(p, args[i])
	}
	if c.HasRest {
		e.Set(c.Rest, val.V{K: val.List, L: append([]val.V{}, args[len(c.Params):]...)})
	}
	return in.evalBody(c.Body, e)
}

func (in *Interp) evalTry(ops []val.V, env *Env) (val.V, *Thrown) {
	if len(ops) == 0 {
		return val.N(), nil
	}
	body := ops
	var catchSym string
	var handler, fin []val.V
	hasCatch, hasFin := false, false
	last := ops[len(ops)-1]
	if headIs(last, "finally") {
		hasFin = true
		fin = last.L[1:]
		body = ops[:len(ops)-1]
		if len(body) > 0 && headIs(body[len(body)-1], "catch") {
			last = body[len(body)-1]
			body = body[:len(body)-1]
			hasCatch = true
		}
	} else if headIs(last, "catch") {
		hasCatch = true
		body = ops[:len(ops)-1]
	}
	if hasCatch {
		if len(last.L) < 3 || last.L[1].K != val.Sym {
			in.Unspecified("malformed catch")
		}
		catchSym = last.L[1].S
		handler = last.L[2:]
	}
	v, t := in.evalBody(body, env)
	if t != nil && t.Raw {
		// recovered by the try body: an ordinary error from here on
		t = &Thrown{V: t.V, Go: t.Go}
	}
	if t != nil && hasCatch {
		he := NewEnv(env)
		he.Set(catchSym, t.AsValue())
		v, t = in.evalBody(handler, he)
	}
	if hasFin {
		// exactly once, in the scope of the try form, result and errors discarded
		if _, ft := in.evalBody(fin, env); ft != nil && ft.Raw {
			in.Unspecified("raw panic leaves a finally body")
		}
	}
	if t != nil {
		return val.V{}, t
	}
	return v, nil
}

func (in *Interp) quasi(x val.V, env *Env) (val.V, *Thrown) {
	switch x.K {
	case val.Vec:
		out, t := in.quasiLoop(x.L, env)
		if t != nil {
			return val.V{}, t
		}
		return val.V{K: val.Vec, L: out}, nil
	case val.List:
		if headIs(x, "unquote") {
			if len(x.L) < 2 {
				in.Unspecified("unquote without operand")
			}
			return in.Eval(x.L[1], env)
		}
		out, t := in.quasiLoop(x.L, env)
		if t != nil {
			return val.V{}, t
		}
		return val.V{K: val.List, L: out}, nil
	default:
		return x, nil
	}
}

func (in *Interp) quasiLoop(xs []val.V, env *Env) ([]val.V, *Thrown) {
	out := []val.V{}
	badSplice := false
	for _, e := range xs {
		if headIs(e, "splice-unquote") {
			if len(e.L) < 2 {
				in.Unspecified("splice-unquote without operand")
			}
			v, t := in.Eval(e.L[1], env)
			if t != nil {
				return nil, t
			}
			if v.K != val.List && v.K != val.Vec {
				badSplice = true // the type error surfaces after the remaining elements were evaluated
				continue
			}
			out = append(out, v.L...)
			continue
		}
		v, t := in.quasi(e, env)
		if t != nil {
			return nil, t
		}
		out = append(out, v)
	}
	if badSplice {
		return nil, GoErr("builtin")
	}
	return out, nil
}
