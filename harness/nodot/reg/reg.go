// Package reg is a catalogue of Go functions with different signature shapes, registered
// with the reflective binder by the C20 check. The same file exists in two packages whose
// import paths do / do not contain a dot (the binder derives names from the import path).
package reg

import (
	"context"
	"errors"
	"sync"

	"github.com/jig/lisp/lib/call"
	"github.com/jig/lisp/types"
)

// Sentinel is the error the catalogue functions return or panic with.
var Sentinel = errors.New("verif-reg-sentinel")

type CtxKey struct{}

// Entry records one invocation.
type Entry struct {
	Fn     string
	Args   []types.MalType
	CtxVal any  // value planted in the context, as seen by the function
	HasCtx bool // the function takes a context
	CtxNil bool
}

var (
	mu   sync.Mutex
	Log  []Entry
	Mode string // ok | err | valerr | panic-err | panic-val
)

func Reset(mode string) {
	mu.Lock()
	Log = nil
	Mode = mode
	mu.Unlock()
}

func Entries() []Entry {
	mu.Lock()
	defer mu.Unlock()
	return append([]Entry{}, Log...)
}

func enter(name string, ctx context.Context, hasCtx bool, args ...types.MalType) {
	e := Entry{Fn: name, Args: append([]types.MalType{}, args...), HasCtx: hasCtx}
	if hasCtx {
		if ctx == nil {
			e.CtxNil = true
		} else {
			e.CtxVal = ctx.Value(CtxKey{})
		}
	}
	mu.Lock()
	Log = append(Log, e)
	mode := Mode
	mu.Unlock()
	switch mode {
	case "panic-err":
		panic(Sentinel)
	case "panic-val":
		panic("verif-panic-value")
	case "panic-map":
		panic(types.HashMap{Val: map[string]types.MalType{"\u029ecode": 42}})
	case "panic-int":
		panic(42)
	case "panic-runtime":
		var m map[string]int
		m["boom"] = 1 // a runtime.Error
	}
}

func res2(v types.MalType) (types.MalType, error) {
	switch Mode {
	case "err":
		return nil, Sentinel
	case "valerr":
		return v, Sentinel
	}
	return v, nil
}

func res1() error {
	if Mode == "err" || Mode == "valerr" {
		return Sentinel
	}
	return nil
}

func anys[T any](xs []T) []types.MalType {
	out := make([]types.MalType, len(xs))
	for i, x := range xs {
		out[i] = x
	}
	return out
}

func F_None() (types.MalType, error)               { enter("F_None", nil, false); return res2("r") }
func F_One(a types.MalType) (types.MalType, error) { enter("F_One", nil, false, a); return res2("r") }
func F_Two(a, b types.MalType) (types.MalType, error) {
	enter("F_Two", nil, false, a, b)
	return res2("r")
}
func F_Int(a int) (types.MalType, error) { enter("F_Int", nil, false, a); return res2(a) }
func F_Str_Int(a string, b int) (types.MalType, error) {
	enter("F_Str_Int", nil, false, a, b)
	return res2(a)
}
func F_Bool(a bool) error                          { enter("F_Bool", nil, false, a); return res1() }
func F_Map(a types.HashMap) (types.MalType, error) { enter("F_Map", nil, false, a); return res2(a) }
func F_List(a types.List) (types.MalType, error)   { enter("F_List", nil, false, a); return res2(a) }
func F_Var(xs ...types.MalType) (types.MalType, error) {
	enter("F_Var", nil, false, xs...)
	return res2("r")
}
func F_Fix_Var(a int, xs ...types.MalType) (types.MalType, error) {
	enter("F_Fix_Var", nil, false, append([]types.MalType{a}, xs...)...)
	return res2("r")
}
func F_Var_Int(xs ...int) (types.MalType, error) {
	enter("F_Var_Int", nil, false, anys(xs)...)
	return res2("r")
}
func F_Ctx(ctx context.Context) (types.MalType, error) {
	enter("F_Ctx", ctx, true)
	return res2("r")
}
func F_Ctx_One(ctx context.Context, a types.MalType) (types.MalType, error) {
	enter("F_Ctx_One", ctx, true, a)
	return res2("r")
}
// AppCtx is an embedder's own context type (a struct embedding context.Context); ExtCtx an interface extending it.
type AppCtx struct {
	context.Context
	User string
}

type ExtCtx interface {
	context.Context
}

func F_AppCtx_One(ctx AppCtx, a types.MalType) (types.MalType, error) {
	enter("F_AppCtx_One", ctx, true, a)
	return res2("r")
}
func F_ExtCtx_Var(ctx ExtCtx, xs ...types.MalType) (types.MalType, error) {
	enter("F_ExtCtx_Var", ctx, true, xs...)
	return res2("r")
}

// F_Ñu: an identifier with a capital letter outside ASCII (registered as f-ñu)
func F_Ñu(a types.MalType) (types.MalType, error) { enter("F_Ñu", nil, false, a); return res2("r") }

func F_Ctx_Int_Str(ctx context.Context, a int, b string) (types.MalType, error) {
	enter("F_Ctx_Int_Str", ctx, true, a, b)
	return res2(b)
}
func F_Ctx_Var(ctx context.Context, xs ...types.MalType) (types.MalType, error) {
	enter("F_Ctx_Var", ctx, true, xs...)
	return res2("r")
}
func F_Ctx_Fix_Var(ctx context.Context, a string, xs ...types.MalType) (types.MalType, error) {
	enter("F_Ctx_Fix_Var", ctx, true, append([]types.MalType{a}, xs...)...)
	return res2("r")
}
func F_NoRes(a types.MalType)          { enter("F_NoRes", nil, false, a) }
func F_Ctx_NoRes(ctx context.Context)  { enter("F_Ctx_NoRes", ctx, true) }
func F_Err_Only(a types.MalType) error { enter("F_Err_Only", nil, false, a); return res1() }
func F_Ctx_Err_Only(ctx context.Context, a int) error {
	enter("F_Ctx_Err_Only", ctx, true, a)
	return res1()
}

func F_Typed_Res(a int) (int, error) {
	enter("F_Typed_Res", nil, false, a)
	if Mode == "err" || Mode == "valerr" {
		return a, Sentinel
	}
	return a + 1, nil
}
func F_Ctx_Var_Str(ctx context.Context, xs ...string) (types.MalType, error) {
	enter("F_Ctx_Var_Str", ctx, true, anys(xs)...)
	return res2("r")
}
func F_Set_Vec(a types.Set, b types.Vector) (types.MalType, error) {
	enter("F_Set_Vec", nil, false, a, b)
	return res2(b)
}
func F_Fn(f types.MalFunc, a types.MalType) (types.MalType, error) {
	enter("F_Fn", nil, false, f, a)
	return res2("r")
}

// Catalogue lists the functions in a fixed order.
var Catalogue = []struct {
	Name string
	Fn   any
}{
	{"F_AppCtx_One", F_AppCtx_One}, {"F_ExtCtx_Var", F_ExtCtx_Var}, {"F_Ñu", F_Ñu},
	{"F_None", F_None}, {"F_One", F_One}, {"F_Two", F_Two}, {"F_Int", F_Int}, {"F_Str_Int", F_Str_Int}, {"F_Bool", F_Bool},
	{"F_Map", F_Map}, {"F_List", F_List}, {"F_Var", F_Var}, {"F_Fix_Var", F_Fix_Var}, {"F_Var_Int", F_Var_Int}, {"F_Ctx", F_Ctx},
	{"F_Ctx_One", F_Ctx_One}, {"F_Ctx_Int_Str", F_Ctx_Int_Str}, {"F_Ctx_Var", F_Ctx_Var}, {"F_Ctx_Fix_Var", F_Ctx_Fix_Var},
	{"F_NoRes", F_NoRes}, {"F_Ctx_NoRes", F_Ctx_NoRes}, {"F_Err_Only", F_Err_Only}, {"F_Ctx_Err_Only", F_Ctx_Err_Only},
	{"F_Typed_Res", F_Typed_Res}, {"F_Ctx_Var_Str", F_Ctx_Var_Str}, {"F_Set_Vec", F_Set_Vec}, {"F_Fn", F_Fn},
}

// Closure returns a function literal (registered through CallOverrideFN): its runtime
// name is <package>.Closure.func1. Every call makes a new instance that reports its tag.
func Closure(tag string) any {
	return func(a types.MalType, xs ...types.MalType) (types.MalType, error) {
		enter("closure:"+tag, nil, false, append([]types.MalType{a}, xs...)...)
		return res2("r")
	}
}

// Register calls the binder from inside this package.
func Register(env types.EnvType, fn any, override string, bounds ...int) {
	if override != "" {
		call.CallOverrideFN(env, override, fn, bounds...)
		return
	}
	call.Call(env, fn, bounds...)
}
