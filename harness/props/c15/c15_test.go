package c15

import (
	"fmt"
	"sort"
	"strings"
	"testing"

	"github.com/jig/lisp"
	"github.com/jig/lisp/reader"
	"github.com/jig/lisp/types"
	"pgregory.net/rapid"

	"verifharness/internal/box"
	"verifharness/internal/gen"
	"verifharness/internal/pbt"
	"verifharness/internal/val"
)

// Case: the source as a tree whose placeholder tokens are symbols spelled $name, the
// rendered source text, and the values (name without $ -> value).
type Case struct {
	Tree   val.V
	Src    string
	Values map[string]val.V
	// transports made earlier by the same process (other texts, other values, possibly unreadable):
	// they must not influence this one
	Prior []Prior `json:",omitempty"`
}

type Prior struct {
	Src    string
	Values map[string]val.V
}

var priorSrcs = []string{"; only a comment", "", "(", ")", "(f $a $b", "\"unterminated", "$a", "[$LIMIT $N $k]", "(do $x1 $missing)",
	";; $a\n$a", ";; $a 1 2\n$a", ";; $ 1\n1", "{:k $s1", "(f $a) (g $b)", "¬raw", "#{$s1 $s2}", "\ufeff\ufeff1"}

var nameGen = rapid.SampledFrom([]string{"a", "b", "N", "x1", "a-b", "a_b", "0", "1", "LIMIT", "k", "s1", "s2", "missing", "Z-9_z", "MODULE", "module", "MODULES", "nil", "true", "x"})

var valOpts = gen.Opts{Str: gen.StrFull, Syms: true, NoNUL: true}

type sg struct {
	t        *rapid.T
	strNames []string // names whose value is a string/keyword (usable as map key / set member)
	used     map[string]bool
	nested   bool
}

func (g *sg) pick(label string, n int) int { return rapid.IntRange(0, n-1).Draw(g.t, label) }

func (g *sg) ph() val.V {
	n := nameGen.Draw(g.t, "phname")
	g.used[n] = true
	return val.Y("$" + n)
}

func (g *sg) keyPH() (string, bool) {
	if len(g.strNames) == 0 {
		return "", false
	}
	n := rapid.SampledFrom(g.strNames).Draw(g.t, "keyph")
	g.used[n] = true
	return n, true
}

func (g *sg) tree(d int) val.V {
	if d <= 0 || g.pick("leaf", 10) < 4 {
		switch g.pick("leafk", 8) {
		case 0, 1, 2:
			return g.ph()
		case 3:
			return val.I(g.pick("i", 9))
		case 4:
			// placeholder-looking text inside a string literal stays text
			return val.S(rapid.SampledFrom([]string{"$a is $b", "cost: $N", ";; $x 1", "$", "$missing", "a\n;; $a 5\nb", "{\"k\": \"$a\"}",
				"Dear $a,\r\nsee you\r\n", "line one\r\n;; $b 2\r\nline three", "x\ry"}).Draw(g.t, "phstr"))
		case 5:
			return val.Y(rapid.SampledFrom([]string{"f", "def", "+", "quote", "x"}).Draw(g.t, "sym"))
		case 6:
			return val.K("k")
		}
		return val.N()
	}
	n := g.pick("n", 4)
	switch g.pick("coll", 7) {
	case 0, 1, 2:
		xs := make([]val.V, n)
		for i := range xs {
			xs[i] = g.tree(d - 1)
		}
		g.nested = g.nested || d < 3
		return val.V{K: val.List, L: xs}
	case 3:
		xs := make([]val.V, n)
		for i := range xs {
			xs[i] = g.tree(d - 1)
		}
		return val.V{K: val.Vec, L: xs}
	case 4:
		if g.pick("meta", 2) == 0 {
			// the ^ reader macro: metadata and annotated form may both hold placeholders
			meta := g.tree(d - 1)
			if g.pick("metamap", 2) == 0 {
				meta = val.M(map[string]val.V{val.KwMark + "doc": g.ph(), val.KwMark + "n": val.I(1)})
			}
			return val.L(val.Y("with-meta"), g.tree(d-1), meta)
		}
		return val.L(val.Y("quote"), g.tree(d-1))
	case 5: // map literal: placeholder values; placeholder keys only for string-valued names
		m := map[string]val.V{}
		for i := 0; i < n; i++ {
			m[val.KwMark+fmt.Sprintf("k%d", i)] = g.tree(d - 1)
		}
		if kn, ok := g.keyPH(); ok && g.pick("phkey", 2) == 0 {
			m["\x00PH:"+kn] = g.tree(d - 1)
		}
		return val.M(m)
	default: // set literal with placeholder members
		ks := []string{val.KwMark + "m"}
		if kn, ok := g.keyPH(); ok {
			ks = append(ks, "\x00PH:"+kn)
		}
		return val.SetOf(ks...)
	}
}

// tokens renders the tree; map keys / set members spelled "\x00PH:name" are placeholder tokens
func tokens(v val.V, short bool) []gen.Tok {
	out := []gen.Tok{}
	keyTok := func(k string) gen.Tok {
		if strings.HasPrefix(k, "\x00PH:") {
			return gen.Tok{Text: "$" + k[4:]}
		}
		return gen.Tok{Text: val.KeySource(k)}
	}
	var w func(v val.V)
	w = func(v val.V) {
		switch v.K {
		case val.List, val.Vec:
			if v.K == val.List && len(v.L) == 3 && v.L[0].K == val.Sym && v.L[0].S == "with-meta" {
				out = append(out, gen.Tok{Text: "^", Macro: true})
				w(v.L[2])
				w(v.L[1])
				return
			}
			if short && v.K == val.List && len(v.L) == 2 && v.L[0].K == val.Sym && v.L[0].S == "quote" {
				out = append(out, gen.Tok{Text: "'", Macro: true})
				w(v.L[1])
				return
			}
			o, c := "(", ")"
			if v.K == val.Vec {
				o, c = "[", "]"
			}
			out = append(out, gen.Tok{Text: o, Open: true})
			for _, e := range v.L {
				w(e)
			}
			out = append(out, gen.Tok{Text: c, Close: true})
		case val.Map:
			keys := make([]string, 0, len(v.M))
			for k := range v.M {
				keys = append(keys, k)
			}
			sort.Strings(keys)
			out = append(out, gen.Tok{Text: "{", Open: true})
			for _, k := range keys {
				out = append(out, keyTok(k))
				w(v.M[k])
			}
			out = append(out, gen.Tok{Text: "}", Close: true})
		case val.Set:
			out = append(out, gen.Tok{Text: "#{", Open: true})
			for _, k := range v.St {
				out = append(out, keyTok(k))
			}
			out = append(out, gen.Tok{Text: "}", Close: true})
		default:
			if v.K == val.Str && strings.Contains(v.S, "\r") && !strings.Contains(v.S, "¬") {
				// a multi-line raw string token (the only literal that spans lines), line ends as they are
				out = append(out, gen.Tok{Text: "¬" + v.S + "¬"})
				return
			}
			out = append(out, gen.Tok{Text: val.Literal(v)})
		}
	}
	w(v)
	return out
}

func genCase(t *rapid.T) Case {
	c := Case{Values: map[string]val.V{}}
	g := &sg{t: t, used: map[string]bool{}}
	// values first (so that key positions can pick string-valued names)
	nv := rapid.IntRange(0, 5).Draw(t, "nvalues")
	for i := 0; i < nv; i++ {
		n := nameGen.Draw(t, "vname")
		if n == "missing" {
			continue
		}
		var v val.V
		if gen.Chance(t, "longvalue", 80) {
			// a value whose printed form is longer than the usual I/O buffers (4 KiB, 64 KiB)
			size := []int{4090, 4200, 9000, 66000}[gen.Uniform(t, "longsize", 4)]
			switch gen.Uniform(t, "longkind", 4) {
			case 0:
				v = val.S(strings.Repeat("abcdefghij", size/10))
			case 1:
				v = val.S("{\"k\": \"" + strings.Repeat("line of text\n", size/13) + "\"}")
			case 2:
				xs := make([]val.V, size/4)
				for j := range xs {
					xs[j] = val.I(j % 1000)
				}
				v = val.V{K: val.Vec, L: xs}
			default:
				v = val.L(val.S(strings.Repeat("x y ", size/4)), val.S(gen.Str(t, "longtail", valOpts)))
			}
			c.Values[n] = v
			continue
		}
		switch rapid.IntRange(0, 6).Draw(t, "vkind") {
		case 6:
			// a keyword whose name need not be a keyword token (spaces, superscripts, fractions, brackets …)
			name := gen.Str(t, "vkwname", gen.Opts{Str: gen.StrHot, NoKwMark: true, NoNUL: true})
			v = val.K(name)
			if rapid.Bool().Draw(t, "vkwnest") {
				v = val.Vc(val.I(1), val.M(map[string]val.V{val.KwMark + "unit": v}))
			}
		case 0, 1:
			v = val.S(gen.Str(t, "vstr", valOpts))
		case 2:
			v = val.L(val.Y("+"), val.I(1), val.S(gen.Str(t, "vstr2", valOpts))) // code-looking
		default:
			v = gen.Data(t, "vdata", 3, valOpts)
		}
		c.Values[n] = v
	}
	for n, v := range c.Values {
		if v.K == val.Str || v.K == val.Kw {
			g.strNames = append(g.strNames, n)
		}
	}
	sort.Strings(g.strNames)
	c.Tree = g.tree(4)
	lead := rapid.SampledFrom([]string{"", "", "\n", ";; $N 99\n", ";; $a \"from a comment\"\n", "; plain comment\n", "\r\n", ";; $LIMIT 10 unless overridden\n"}).Draw(t, "lead")
	body, _ := gen.Layout(t, tokens(c.Tree, rapid.Bool().Draw(t, "short")))
	c.Src = lead + body + rapid.SampledFrom(gen.Trailers).Draw(t, "trailer")
	if gen.Chance(t, "hasprior", 3) {
		for i, n := 0, 1+gen.Uniform(t, "nprior", 3); i < n; i++ {
			p := Prior{Src: priorSrcs[gen.Uniform(t, "priorsrc", len(priorSrcs))], Values: map[string]val.V{}}
			for j, m := 0, 1+gen.Uniform(t, "npv", 4); j < m; j++ {
				p.Values[nameGen.Draw(t, "pvname")] = gen.Data(t, "pvdata", 2, valOpts)
			}
			c.Prior = append(c.Prior, p)
		}
	}
	return c
}

// expected substitutes the values into the tree; ok=false when a placeholder in key/member
// position has no string value (not generated)
func expected(v val.V, vals map[string]val.V) val.V {
	look := func(name string) val.V {
		if x, ok := vals[name]; ok {
			return x
		}
		return val.N()
	}
	switch v.K {
	case val.Sym:
		if strings.HasPrefix(v.S, "$") {
			return look(v.S[1:])
		}
		return v
	case val.List, val.Vec:
		out := val.V{K: v.K, L: make([]val.V, len(v.L))}
		for i, e := range v.L {
			out.L[i] = expected(e, vals)
		}
		return out
	case val.Map:
		m := map[string]val.V{}
		for k, e := range v.M {
			kk := k
			if strings.HasPrefix(k, "\x00PH:") {
				kk, _ = val.KeyOf(look(k[4:]))
			}
			m[kk] = expected(e, vals)
		}
		// a placeholder key may collide with a literal key: last-wins order is the token
		// order (sorted keys, "\x00PH" first) - handled by caller through dupKey
		return val.M(m)
	case val.Set:
		ks := []string{}
		for _, k := range v.St {
			if strings.HasPrefix(k, "\x00PH:") {
				kk, _ := val.KeyOf(look(k[4:]))
				ks = append(ks, kk)
			} else {
				ks = append(ks, k)
			}
		}
		return val.SetOf(ks...)
	}
	return v
}

func hotValue(v val.V) bool {
	hot := false
	var w func(v val.V)
	w = func(v val.V) {
		switch v.K {
		case val.Str:
			if strings.ContainsAny(v.S, "\"\\\n\r;$()[]{}¬") {
				hot = true
			}
		case val.List, val.Vec:
			for _, e := range v.L {
				w(e)
			}
		case val.Map:
			for k, e := range v.M {
				if strings.ContainsAny(k, "\"\\\n\r;$()[]{}¬") {
					hot = true
				}
				w(e)
			}
		}
	}
	w(v)
	return hot
}

func check(c Case) pbt.Verdict {
	box.Silence()
	want := expected(c.Tree, c.Values)
	m := map[string]types.MalType{}
	for n, v := range c.Values {
		m["$"+n] = val.To(v)
	}
	for _, p := range c.Prior {
		pm := map[string]types.MalType{}
		for n, v := range p.Values {
			pm["$"+n] = val.To(v)
		}
		box.Guard(func() (types.MalType, error) {
			reader.Read_str(p.Src, nil, &types.HashMap{Val: pm})
			txt, err := lisp.AddPreamble(p.Src, pm)
			if err != nil {
				return nil, err
			}
			return lisp.READWithPreamble(txt, nil, nil)
		})
	}
	// B: direct token-level substitution
	rb := box.Guard(func() (types.MalType, error) {
		return reader.Read_str(c.Src, nil, &types.HashMap{Val: m})
	})
	// A: through the preamble transport
	var withPre string
	ra := box.Guard(func() (types.MalType, error) {
		var err error
		withPre, err = lisp.AddPreamble(c.Src, m)
		if err != nil {
			return nil, err
		}
		return lisp.READWithPreamble(withPre, nil, nil)
	})
	desc := func() string {
		names := make([]string, 0, len(c.Values))
		for n := range c.Values {
			names = append(names, n)
		}
		sort.Strings(names)
		var sb strings.Builder
		for _, n := range names {
			sb.WriteString(fmt.Sprintf("  $%s = %s\n", n, val.Canon(c.Values[n])))
		}
		return fmt.Sprintf("source %q\nvalues:\n%stext with preamble %q", c.Src, sb.String(), withPre)
	}
	if rb.Panicked || ra.Panicked {
		return pbt.Failf("panic:"+rb.PanicSite+ra.PanicSite, "panic %v %v\n%s", rb.PanicVal, ra.PanicVal, desc())
	}
	if rb.Err != nil {
		return pbt.Failf("direct-substitution-error", "Read_str with placeholder values failed: %v\n%s", rb.Err, desc())
	}
	if got := val.From(rb.Val); !val.Eq(got, want) {
		return pbt.Failf("direct-substitution-wrong", "Read_str with placeholder values gives %s, expected %s\n%s", val.Canon(got), val.Canon(want), desc())
	}
	if ra.Err != nil {
		return pbt.Failf("preamble-transport-error", "READWithPreamble(AddPreamble(src)) failed: %v\n%s", ra.Err, desc())
	}
	if got := val.From(ra.Val); !val.Eq(got, want) {
		return pbt.Failf("preamble-transport-wrong", "READWithPreamble(AddPreamble(src)) gives %s, expected %s\n%s", val.Canon(got), val.Canon(want), desc())
	}
	v := pbt.Verdict{Key: c.Src + "\x00" + fmt.Sprint(len(c.Values)) + val.Canon(want)}
	nph := strings.Count(c.Src, "$")
	hot := false
	for _, x := range c.Values {
		hot = hot || hotValue(x)
	}
	v.NonTrivial = nph >= 2 && hot && val.Depth(c.Tree) >= 2
	if strings.HasPrefix(c.Src, ";; $") {
		v.Labels = append(v.Labels, "source-starts-with-preamble-looking-comment")
	}
	if hot {
		v.Labels = append(v.Labels, "hot-value")
	}
	if len(c.Prior) > 0 {
		v.Labels = append(v.Labels, "after-earlier-transports")
	}
	if strings.Contains(val.Literal(val.L()), "x") {
		v.Labels = append(v.Labels, "x")
	}
	return v
}

var P = pbt.Prop[Case]{
	ID:    "C15",
	Gen:   genCase,
	Check: check,
	Show: func(c Case) any {
		vs := map[string]string{}
		for n, v := range c.Values {
			vs["$"+n] = val.Canon(v)
		}
		return map[string]any{"src": c.Src, "values": vs}
	},
}

func TestMain(m *testing.M)   { pbt.Main(m) }
func TestProp(t *testing.T)   { pbt.Run(t, P) }
func TestCorpus(t *testing.T) { pbt.Corpus(t, P) }
func TestReplay(t *testing.T) { pbt.Replay(t, P) }
