package c16

import (
	"fmt"
	"strings"
	"testing"

	"github.com/jig/lisp"
	"github.com/jig/lisp/repl"
	"github.com/jig/lisp/types"
	"pgregory.net/rapid"

	"verifharness/internal/box"
	"verifharness/internal/gen"
	"verifharness/internal/pbt"
)

// Tok: one source token with the separator text that precedes it.
type Tok struct {
	Sep  string
	Text string
	Kind string // open close macro atom key
	Need int    `json:",omitempty"` // macro: number of operand forms (1, or 2 for ^)
}

type Case struct {
	Toks    []Tok
	Trailer string
	// Mutation applied to the full text: "" (cuts only), "append)", "append]", "append}",
	// "wrong-closer", "extra-closer", "two-expressions", "two-expressions-second-cut"
	Mut    string
	MutPos int
	Second []Tok `json:",omitempty"`
	// PadKB > 0: a comment block of that many KiB stands before the second token (texts longer than the usual
	// buffer sizes); only the last few cuts are tried then
	PadKB int `json:",omitempty"`
}

type eg struct {
	t    *rapid.T
	toks []Tok
}

func (g *eg) pick(label string, n int) int { return rapid.IntRange(0, n-1).Draw(g.t, label) }

var atomTexts = []string{"a", "foo", "+", "nil", "true", "42", "-1", ":k", "x?", "\"s\"", "\"(\"", "\")]}\"", "\"[{\"", "\"a b\"", "¬raw¬", "¬(]}¬", "¬)¬", "¬]¬", "¬}¬", "¬(¬", "\")\"", "\"]\"", "\"}\"", "¬#{¬", "¬{\"k\": [1}¬", "\"#{\"", ":a-b", "&", "0x1F",
	"\"\"", "¬¬", "¬a\nb)¬", "\"a\\\"(\"", "\"\\\\\"", "¬\"¬", "\"¬\""}
var keyTexts = []string{":a", ":b", ":k", "\"s\"", "\"(\"", "\"}\"", ":a-b", "¬raw}¬", "¬}¬", "¬)¬", "\"]\"", "\"\"", "¬¬"}

func (g *eg) emit(text, kind string, need int) {
	g.toks = append(g.toks, Tok{Text: text, Kind: kind, Need: need})
}

func (g *eg) form(d int) {
	if d <= 0 || g.pick("leaf", 10) < 3 {
		g.emit(rapid.SampledFrom(atomTexts).Draw(g.t, "atom"), "atom", 0)
		return
	}
	switch c := g.pick("kind", 12); {
	case c <= 3:
		g.emit("(", "open", 0)
		for i, n := 0, g.pick("n", 5); i < n; i++ {
			g.form(d - 1)
		}
		g.emit(")", "close", 0)
	case c <= 5:
		g.emit("[", "open", 0)
		for i, n := 0, g.pick("n", 5); i < n; i++ {
			g.form(d - 1)
		}
		g.emit("]", "close", 0)
	case c <= 7:
		g.emit("{", "open", 0)
		seen := map[string]bool{}
		for i, n := 0, g.pick("n", 3); i < n; i++ {
			k := rapid.SampledFrom(keyTexts).Draw(g.t, "key")
			if seen[k] {
				continue
			}
			seen[k] = true
			g.emit(k, "key", 0)
			g.form(d - 1)
		}
		g.emit("}", "close", 0)
	case c == 8:
		g.emit("#{", "open", 0)
		for i, n := 0, g.pick("n", 3); i < n; i++ {
			g.emit(rapid.SampledFrom(keyTexts).Draw(g.t, "member"), "key", 0)
		}
		g.emit("}", "close", 0)
	case c == 9:
		g.emit(rapid.SampledFrom([]string{"'", "`", "~", "~@", "@"}).Draw(g.t, "macro"), "macro", 1)
		g.form(d - 1)
	case c == 10:
		g.emit("^", "macro", 2)
		g.emit("{", "open", 0)
		g.emit(":m", "key", 0)
		g.emit("1", "atom", 0)
		g.emit("}", "close", 0)
		g.form(d - 1)
	default:
		g.emit(rapid.SampledFrom(atomTexts).Draw(g.t, "atom"), "atom", 0)
	}
}

func (g *eg) layout() {
	for i := range g.toks {
		if i == 0 {
			g.toks[i].Sep = rapid.SampledFrom([]string{"", "", "\n", "; lead ( [\n", "  "}).Draw(g.t, "lead")
			continue
		}
		prev, cur := g.toks[i-1], g.toks[i]
		must := !(prev.Kind == "open" || prev.Kind == "macro" || cur.Kind == "close")
		if prev.Text == "~" && strings.HasPrefix(cur.Text, "@") {
			must = true
		}
		// "#" + "{" never occurs (no bare # atom); "~" then "@..." handled above
		g.toks[i].Sep = gen.Sep(g.t, must)
	}
}

func genExpr(t *rapid.T, label string) []Tok {
	g := &eg{t: t}
	// top level: mostly a collection, so that cuts have an open bracket
	if rapid.IntRange(0, 9).Draw(t, label+"topatom") == 0 {
		g.form(0)
	} else {
		g.form(5)
	}
	g.layout()
	return g.toks
}

func genCase(t *rapid.T) Case {
	c := Case{Toks: genExpr(t, "e")}
	c.Trailer = rapid.SampledFrom(gen.Trailers).Draw(t, "trailer")
	if gen.Chance(t, "padded", 700) {
		c.PadKB = []int{5, 65, 1025}[gen.Uniform(t, "padkb", 3)]
	}
	switch rapid.IntRange(0, 8).Draw(t, "mut") {
	case 0, 1, 2:
		c.Mut = ""
	case 3:
		c.Mut = "append" + rapid.SampledFrom([]string{")", "]", "}"}).Draw(t, "closer")
	case 4, 5:
		c.Mut = "wrong-closer"
		c.MutPos = rapid.IntRange(0, len(c.Toks)).Draw(t, "mpos")
	case 6, 7:
		c.Mut = "extra-closer"
		c.MutPos = rapid.IntRange(0, len(c.Toks)).Draw(t, "mpos")
	default:
		c.Mut = "two-expressions"
		c.Second = genExpr(t, "second")
		if rapid.Bool().Draw(t, "secondcut") {
			// the second expression is only begun
			c.Mut = "two-expressions-second-cut"
			c.MutPos = rapid.IntRange(1, len(c.Second)).Draw(t, "secondcutat")
		}
	}
	return c
}

func text(toks []Tok) string {
	var sb strings.Builder
	for _, tk := range toks {
		sb.WriteString(tk.Sep)
		sb.WriteString(tk.Text)
	}
	return sb.String()
}

var closerOf = map[string]string{"(": ")", "[": "]", "{": "}", "#{": "}"}

type frame struct {
	open  string // bracket text, or "" for a reader macro
	need  int    // macro: operands still missing
	count int    // collection: elements so far
}

// classify the prefix toks[:n]: stack of open brackets (innermost last), whether a reader
// macro is waiting for an operand, whether closing everything would be well-formed.
func classify(toks []Tok) (stack []frame, completable bool) {
	st := []frame{}
	var done func()
	done = func() { // a complete form was just finished
		if len(st) == 0 {
			return
		}
		top := &st[len(st)-1]
		if top.open == "" {
			top.need--
			if top.need == 0 {
				st = st[:len(st)-1]
				done()
			}
			return
		}
		top.count++
	}
	for _, tk := range toks {
		switch tk.Kind {
		case "open":
			st = append(st, frame{open: tk.Text})
		case "close":
			st = st[:len(st)-1]
			done()
		case "macro":
			st = append(st, frame{need: tk.Need})
		default:
			done()
		}
	}
	if len(st) == 0 {
		return st, false
	}
	completable = true
	// closing from the innermost outwards: each closed collection becomes one element of its parent
	counts := make([]int, len(st))
	for i, f := range st {
		counts[i] = f.count
	}
	for i := len(st) - 1; i >= 0; i-- {
		f := st[i]
		if f.open == "" {
			completable = false // a reader macro still waits for its operand
			break
		}
		if f.open == "{" && counts[i]%2 != 0 {
			completable = false
			break
		}
		if i > 0 {
			if st[i-1].open == "#{" {
				completable = false // a collection as set member
				break
			}
			if st[i-1].open == "{" && counts[i-1]%2 == 0 {
				completable = false // a collection in key position
				break
			}
			if st[i-1].open == "" {
				// closing this collection completes an operand of the macro
				if st[i-1].need > 1 {
					completable = false
					break
				}
				// the macro form completes too: it becomes an element of ITS parent
				j := i - 1
				for j >= 0 && st[j].open == "" {
					j--
				}
				// all macros between j and i must be on their last operand
				ok := true
				for k := j + 1; k < i; k++ {
					if st[k].need > 1 {
						ok = false
					}
				}
				if !ok {
					completable = false
					break
				}
				if j >= 0 {
					counts[j]++
					if st[j].open == "#{" || (st[j].open == "{" && (counts[j]-1)%2 == 0) {
						completable = false
						break
					}
				}
				// skip the macro frames
				i = j + 1
				continue
			}
			counts[i-1]++
		}
	}
	return st, completable
}

func readErr(src string) (types.MalType, error, bool) {
	r := box.Guard(func() (types.MalType, error) { return lisp.READ(src, types.NewCursorFile("REPL"), nil) })
	return r.Val, r.Err, r.Panicked
}

func errText(err error) string {
	if ev, ok := box.ErrorValue(err); ok {
		if e, ok := ev.(error); ok {
			return e.Error()
		}
		return fmt.Sprint(ev)
	}
	return err.Error()
}

func check(c Case) pbt.Verdict {
	box.Silence()
	firstCut := 1
	if c.PadKB > 0 && len(c.Toks) > 0 {
		toks := append([]Tok{}, c.Toks...)
		k := 0
		if len(toks) > 1 {
			k = 1
		}
		line := "; " + strings.Repeat("padding ( [ { ", 73) + "\n"
		toks[k].Sep += "\n" + strings.Repeat(line, c.PadKB) + " "
		c.Toks = toks
		if len(toks) > 7 {
			firstCut = len(toks) - 6
		}
	}
	full := text(c.Toks)
	v := pbt.Verdict{Key: text(c.Toks[:min(len(c.Toks), 1)]) + fmt.Sprint(c.PadKB, len(full)) + "\x00" + c.Mut + fmt.Sprint(c.MutPos) + text(c.Second)}
	if c.PadKB == 0 {
		v.Key = full + "\x00" + c.Mut + fmt.Sprint(c.MutPos) + text(c.Second)
	} else {
		v.Labels = append(v.Labels, fmt.Sprintf("padded:%dKiB", c.PadKB))
	}
	// the full text is one well-formed expression
	if _, err, p := readErr(full + c.Trailer); err != nil || p {
		return pbt.Failf("complete-expression-rejected", "well-formed text %q rejected: %v (panic=%v)", full+c.Trailer, err, p)
	}
	evals := 1
	maxDepth, strBr := 0, false
	// (i) every prefix cut after a token
	for n := firstCut; n < len(c.Toks); n++ {
		cut := text(c.Toks[:n])
		st, completable := classify(c.Toks[:n])
		if len(st) == 0 {
			continue // the prefix is itself a complete expression followed by more: not a proper prefix of ONE expression
		}
		_, err, p := readErr(cut)
		evals++
		if p {
			return pbt.Failf("panic-on-cut", "READ panicked on %q", cut)
		}
		if err == nil {
			return pbt.Failf("incomplete-text-accepted", "the cut %q (open brackets remain) was accepted", cut)
		}
		if !completable {
			v.Labels = append(v.Labels, "cut:not-completable(unjudged)")
			continue
		}
		inner := ""
		for i := len(st) - 1; i >= 0; i-- {
			if st[i].open != "" {
				inner = st[i].open
				break
			}
		}
		want := "expected '" + closerOf[inner] + "', got EOF"
		if got := errText(err); got != want {
			return pbt.Failf("incomplete-not-recognised:"+inner, "cut %q can be completed by closing brackets; READ must say %q, said %q", cut, want, got)
		}
		if !repl.VerifMultiLine(err) {
			return pbt.Failf("repl-does-not-continue:"+inner, "cut %q: the REPL's classification of %q is 'not multi-line'", cut, errText(err))
		}
		// cross-check: appending the matching closers gives a well-formed text
		closers := ""
		for i := len(st) - 1; i >= 0; i-- {
			closers += closerOf[st[i].open]
		}
		if _, err2, p2 := readErr(cut + "\n" + closers); err2 != nil || p2 {
			return pbt.Failf("oracle-cross-check", "harness says %q is completable with %q but READ rejects the completion: %v", cut, closers, err2)
		}
		evals++
		if len(st) > maxDepth {
			maxDepth = len(st)
		}
		if strings.ContainsAny(strings.Join(stringsIn(c.Toks[:n]), ""), "()[]{}") {
			strBr = true
		}
		v.Labels = append(v.Labels, "cut:completable:"+inner)
	}
	// (ii)-(iv) malformed variants
	var bad string
	switch {
	case strings.HasPrefix(c.Mut, "append"):
		bad = full + c.Mut[len("append"):]
	case c.Mut == "two-expressions":
		bad = full + " " + text(c.Second)
	case c.Mut == "two-expressions-second-cut":
		k := c.MutPos
		if k > len(c.Second) {
			k = len(c.Second)
		}
		opened := false
		for _, tk := range c.Second[:k] {
			opened = opened || tk.Kind == "open"
		}
		if !opened {
			k = len(c.Second) // a lone reader macro or atom prefix: keep the whole second expression
		}
		bad = full + " " + text(c.Second[:k])
	case c.Mut == "wrong-closer":
		// replace the MutPos-th closer (cyclically) by a different one
		idx := []int{}
		for i, tk := range c.Toks {
			if tk.Kind == "close" {
				idx = append(idx, i)
			}
		}
		if len(idx) > 0 {
			i := idx[c.MutPos%len(idx)]
			toks := append([]Tok{}, c.Toks...)
			repl := map[string]string{")": "]", "]": "}", "}": ")"}[toks[i].Text]
			toks[i].Text = repl
			bad = text(toks)
		}
	case c.Mut == "extra-closer":
		// insert a closer after token MutPos that does not match the innermost open bracket there
		n := c.MutPos % (len(c.Toks) + 1)
		st, _ := classify(c.Toks[:n])
		inner := ""
		pendingMacro := false
		for i := len(st) - 1; i >= 0; i-- {
			if st[i].open != "" {
				inner = st[i].open
				break
			}
			pendingMacro = true
		}
		cl := ")"
		if closerOf[inner] == ")" {
			cl = "]"
		}
		_ = pendingMacro
		toks := append([]Tok{}, c.Toks[:n]...)
		toks = append(toks, Tok{Sep: " ", Text: cl, Kind: "close"})
		toks = append(toks, c.Toks[n:]...)
		bad = text(toks)
	}
	if bad != "" {
		_, err, p := readErr(bad)
		evals++
		if p {
			return pbt.Failf("panic-on-malformed", "READ panicked on %q", bad)
		}
		if err == nil {
			return pbt.Failf("malformed-accepted:"+c.Mut, "malformed text %q (%s) was accepted", bad, c.Mut)
		}
		if repl.VerifMultiLine(err) {
			return pbt.Failf("malformed-reported-incomplete:"+c.Mut, "malformed text %q (%s) is classified as incomplete input: %s", bad, c.Mut, errText(err))
		}
		v.Labels = append(v.Labels, "malformed:"+c.Mut)
	}
	v.Evals = evals
	v.NonTrivial = maxDepth >= 2 || strBr
	return v
}

func stringsIn(toks []Tok) []string {
	out := []string{}
	for _, tk := range toks {
		if strings.HasPrefix(tk.Text, "\"") || strings.HasPrefix(tk.Text, "¬") {
			out = append(out, tk.Text)
		}
		if strings.Contains(tk.Sep, ";") {
			out = append(out, tk.Sep)
		}
	}
	return out
}

var P = pbt.Prop[Case]{
	ID:    "C16",
	Gen:   genCase,
	Check: check,
	Show: func(c Case) any {
		return map[string]string{"text": text(c.Toks), "mutation": c.Mut}
	},
}

func TestMain(m *testing.M)   { pbt.Main(m) }
func TestProp(t *testing.T)   { pbt.Run(t, P) }
func TestCorpus(t *testing.T) { pbt.Corpus(t, P) }
func TestReplay(t *testing.T) { pbt.Replay(t, P) }
