package c12

import (
	"context"
	"fmt"
	"sort"
	"strings"
	"testing"
	"time"

	"github.com/jig/lisp"
	"github.com/jig/lisp/types"
	"pgregory.net/rapid"

	"verifharness/internal/box"
	"verifharness/internal/gen"
	"verifharness/internal/pbt"
	"verifharness/internal/refmal"
	"verifharness/internal/val"
)

// Case: pool variables (data values bound as globals), definitions (macros, helper
// functions), and the form under test.
type Case struct {
	Mode  string // "template" | "macro"
	Pool  map[string]val.V
	Defs  []val.V
	Call  val.V
	Short bool   // render reader-macro spellings (` ~ ~@ ') instead of long forms
	Src   string `json:",omitempty"` // hand-written corpus cases: defs + call as text (last form is the call)
}

func sym(s string) val.V { return val.Y(s) }
func call(h string, a ...val.V) val.V {
	return val.V{K: val.List, L: append([]val.V{val.Y(h)}, a...)}
}
func lst(a ...val.V) val.V { return val.V{K: val.List, L: append([]val.V{}, a...)} }

// render writes a form, optionally with the reader-macro spellings.
func render(v val.V, short bool) string {
	if !short {
		return val.Literal(v)
	}
	var sb strings.Builder
	var w func(v val.V)
	w = func(v val.V) {
		switch v.K {
		case val.List, val.Vec:
			if v.K == val.List && len(v.L) == 2 && v.L[0].K == val.Sym {
				switch v.L[0].S {
				case "quote":
					sb.WriteString("'")
					w(v.L[1])
					return
				case "quasiquote":
					sb.WriteString("`")
					w(v.L[1])
					return
				case "unquote":
					sb.WriteString("~")
					w(v.L[1])
					return
				case "splice-unquote":
					sb.WriteString("~@")
					w(v.L[1])
					return
				}
			}
			o, c := "(", ")"
			if v.K == val.Vec {
				o, c = "[", "]"
			}
			sb.WriteString(o)
			for i, e := range v.L {
				if i > 0 {
					sb.WriteByte(' ')
				}
				w(e)
			}
			sb.WriteString(c)
		case val.Map:
			keys := make([]string, 0, len(v.M))
			for k := range v.M {
				keys = append(keys, k)
			}
			sort.Strings(keys)
			sb.WriteString("{")
			for i, k := range keys {
				if i > 0 {
					sb.WriteByte(' ')
				}
				sb.WriteString(val.KeySource(k))
				sb.WriteByte(' ')
				w(v.M[k])
			}
			sb.WriteString("}")
		default:
			sb.WriteString(val.Literal(v))
		}
	}
	w(v)
	return sb.String()
}

func (c Case) Text() string {
	var sb strings.Builder
	names := make([]string, 0, len(c.Pool))
	for n := range c.Pool {
		names = append(names, n)
	}
	sort.Strings(names)
	for _, n := range names {
		sb.WriteString("(def " + n + " " + val.Quoted(c.Pool[n]) + ")\n")
	}
	for _, d := range c.Defs {
		sb.WriteString(render(d, c.Short) + "\n")
	}
	sb.WriteString(render(c.Call, c.Short))
	return sb.String()
}

// ---------- generators ----------

type tg struct {
	t      *rapid.T
	trace  int
	pool   map[string]val.V
	splice int
	nested int
	bad    bool
}

func (g *tg) pick(label string, n int) int { return rapid.IntRange(0, n-1).Draw(g.t, label) }

func (g *tg) nextTrace() val.V { g.trace++; return val.I(100 + g.trace) }

var dataOpts = gen.Opts{Str: gen.StrPlain, SmallInt: true, NoSets: true}

func genPool(t *rapid.T) map[string]val.V {
	pool := map[string]val.V{}
	for i := 0; i < 4; i++ {
		name := fmt.Sprintf("p%d", i)
		switch rapid.IntRange(0, 9).Draw(t, "poolkind") {
		case 0, 1, 2, 3:
			n := rapid.IntRange(0, 3).Draw(t, "pn")
			xs := make([]val.V, n)
			for j := range xs {
				xs[j] = gen.Data(t, "pe", 1, dataOpts)
			}
			k := val.List
			if rapid.Bool().Draw(t, "pvec") {
				k = val.Vec
			}
			pool[name] = val.V{K: k, L: xs}
		case 4:
			pool[name] = val.L(val.Y("+"), val.I(1), val.I(2)) // code-looking data
		default:
			pool[name] = gen.Data(t, "pv", 2, dataOpts)
		}
	}
	return pool
}

// unquoted expression: returns form
func (g *tg) uexpr(wantSeq bool) val.V {
	names := []string{"p0", "p1", "p2", "p3"}
	cands := []string{}
	for _, n := range names {
		k := g.pool[n].K
		if (k == val.List || k == val.Vec) == wantSeq {
			cands = append(cands, n)
		}
	}
	if len(cands) == 0 || g.pick("anyvar", 8) == 0 {
		cands = names
	}
	v := sym(rapid.SampledFrom(cands).Draw(g.t, "uvar"))
	switch g.pick("ukind", 5) {
	case 0:
		return call("trace!", v)
	case 1:
		if !wantSeq {
			return call("trace!", g.nextTrace())
		}
		return call("list", g.nextTrace(), v)
	case 2:
		if wantSeq {
			return call("rest", call("cons", val.I(0), v))
		}
	}
	return v
}

func (g *tg) template(d int) val.V {
	if d <= 0 || g.pick("tleaf", 10) < 3 {
		switch g.pick("tleafk", 8) {
		case 0:
			return val.I(g.pick("ti", 9))
		case 1:
			return sym(rapid.SampledFrom([]string{"a", "p0", "unquote", "splice-unquote", "quote", "x", "list", "quasiquote"}).Draw(g.t, "tsym"))
		case 2:
			return val.K("k")
		case 3:
			return val.S(gen.Str(g.t, "ts", dataOpts))
		case 4:
			return val.N()
		case 5:
			// maps are literal, whatever they hold
			switch g.pick("tmapk", 4) {
			case 0:
				return val.M(map[string]val.V{val.KwMark + "k": val.Vc(sym("p0"), sym("a"))})
			case 1:
				return val.M(map[string]val.V{val.KwMark + "k": val.M(map[string]val.V{val.KwMark + "j": val.Vc(sym("p1"))}), "s": val.I(1)})
			case 2:
				return val.M(map[string]val.V{val.KwMark + "k": val.Vc(call("unquote", sym("p0"))), val.KwMark + "c": val.I(0)})
			}
			return val.M(map[string]val.V{val.KwMark + "m": call("unquote", sym("p0")), "s": val.I(1)})
		case 6:
			return val.SetOf("a", val.KwMark+"b")
		}
		return call("unquote", g.uexpr(false))
	}
	n := g.pick("tn", 5)
	xs := []val.V{}
	for i := 0; i < n; i++ {
		switch c := g.pick("tel", 10); {
		case c <= 1:
			xs = append(xs, call("unquote", g.uexpr(false)))
		case c <= 3:
			g.splice++
			xs = append(xs, call("splice-unquote", g.uexpr(true)))
		case c <= 5:
			g.nested++
			xs = append(xs, g.template(d-1))
		case c == 6:
			// a nested template: the language keeps no nesting level, unquotes inside it are replaced all the same
			g.nested++
			xs = append(xs, call(rapid.SampledFrom([]string{"quasiquote", "quote"}).Draw(g.t, "nestq"), g.template(d-1)))
		default:
			xs = append(xs, g.template(0))
		}
	}
	k := val.List
	if g.pick("tvec", 3) == 0 {
		k = val.Vec
	}
	// a list whose head is the symbol unquote is an unquote form: only build it through call("unquote", …)
	if k == val.List && len(xs) > 0 && xs[0].K == val.Sym && (xs[0].S == "unquote" || xs[0].S == "splice-unquote") {
		xs[0] = val.I(0)
	}
	return val.V{K: k, L: xs}
}

func genTemplateCase(t *rapid.T) Case {
	g := &tg{t: t, pool: genPool(t)}
	tpl := g.template(3)
	return Case{Mode: "template", Pool: g.pool, Call: call("quasiquote", tpl), Short: rapid.Bool().Draw(t, "short")}
}

// code template for macro bodies: leaves are unquoted parameters
type mg struct {
	t      *rapid.T
	trace  int
	macros []minfo
}

type minfo struct {
	name      string
	fixed     int
	rest      bool
	params    []string
	recursive bool // first operand must be a small literal counter
	vecOfRest bool     // expands to the vector of its rest operands
	extra     []string // names the template may also unquote (the parameter of a macro factory)
}

func nonRec(ms []minfo) []minfo {
	out := []minfo{}
	for _, m := range ms {
		if !m.recursive {
			out = append(out, m)
		}
	}
	return out
}

func (g *mg) pick(label string, n int) int { return rapid.IntRange(0, n-1).Draw(g.t, label) }
func (g *mg) nextTrace() val.V             { g.trace++; return val.I(100 + g.trace) }

func (g *mg) code(d int, m minfo) val.V {
	uq := func() val.V {
		ps := append(append([]string{}, m.params...), m.extra...)
		return call("unquote", sym(ps[g.pick("cparam", len(ps))]))
	}
	if d <= 0 || g.pick("cleaf", 10) < 3 {
		switch g.pick("cleafk", 6) {
		case 0:
			return val.I(g.pick("ci", 5))
		case 1:
			return call("trace!", g.nextTrace())
		case 2:
			return sym("w") // a free variable: resolved in the caller's scope
		}
		if len(m.params)+len(m.extra) == 0 {
			return sym("w")
		}
		return uq()
	}
	a := func() val.V { return g.code(d-1, m) }
	switch c := g.pick("ckind", 16); {
	case c == 14:
		// the expansion holds a template of its own
		return call("quasiquote", lst(a(), a()))
	case c == 15:
		// a vector whose first element is the NAME of a macro: data, not a macro call
		if prev := nonRec(g.macros); len(prev) > 0 {
			return val.Vc(sym(prev[g.pick("cvecm", len(prev))].name), a(), a())
		}
		return val.Vc(sym("cond"), a(), a())
	case c >= 12:
		if prev := nonRec(g.macros); len(prev) > 0 {
			p := prev[0]
			args := []val.V{}
			for i := 0; i < p.fixed; i++ {
				args = append(args, a())
			}
			return val.V{K: val.List, L: append([]val.V{sym(p.name)}, args...)}
		}
		return call("list", a(), a())
	case c == 0:
		return call("if", a(), a(), a())
	case c == 1:
		if m.rest {
			return call("do", a(), call("splice-unquote", sym("r")))
		}
		return call("do", a(), a())
	case c == 2:
		return call("list", a(), a())
	case c == 3:
		return call("let", lst(sym("t"), a()), call("list", sym("t"), a()))
	case c == 4:
		return val.Vc(a(), a())
	case c == 5:
		return call("quote", a())
	case c == 6:
		if prev := nonRec(g.macros); len(prev) > 0 {
			p := prev[g.pick("cprev", len(prev))]
			args := []val.V{}
			for i := 0; i < p.fixed; i++ {
				args = append(args, a())
			}
			return val.V{K: val.List, L: append([]val.V{sym(p.name)}, args...)}
		}
		return call("list", a())
	case c == 7:
		return call("cond", a(), a(), val.B(true), a())
	case c == 8:
		if m.rest {
			return call("list", call("splice-unquote", sym("r")), a())
		}
		return call("first", call("list", a(), a()))
	case c == 9:
		return call("fn", lst(sym("z")), call("list", sym("z"), a()))
	case c == 10:
		return lst(call("fn", lst(sym("z")), call("list", sym("z"), a())), a())
	}
	return call("+", a(), a())
}

func (g *mg) operand(d int) val.V {
	switch c := g.pick("operand", 12); {
	case c <= 2:
		return call("trace!", g.nextTrace())
	case c == 3:
		return val.I(g.pick("oi", 9))
	case c == 4:
		return call("throw", val.I(7)) // fails if evaluated
	case c == 5:
		return sym("zz-unbound")
	case c == 6:
		return sym("w")
	case c == 7:
		return lst(val.I(1), val.I(2)) // not callable if evaluated
	case c == 8:
		return val.Vc(call("trace!", g.nextTrace()), sym("w"))
	case c == 9:
		if len(nonRec(g.macros)) > 0 && d > 0 {
			save := g.macros
			g.macros = nonRec(g.macros)
			r := g.mcall(d - 1)
			g.macros = save
			return r
		}
		return val.N()
	case c == 10:
		return val.K("k")
	}
	return call("list", call("trace!", g.nextTrace()), val.I(1))
}

func (g *mg) mcall(d int) val.V {
	m := g.macros[g.pick("whichm", len(g.macros))]
	args := []val.V{}
	for i := 0; i < m.fixed; i++ {
		args = append(args, g.operand(d))
	}
	if m.rest {
		n := g.pick("nrest", 3)
		for i := 0; i < n; i++ {
			args = append(args, g.operand(d))
		}
	}
	if g.pick("wrongarity", 25) == 0 {
		args = append(args, g.operand(0), g.operand(0), g.operand(0))
	}
	return val.V{K: val.List, L: append([]val.V{sym(m.name)}, args...)}
}

func genMacroCase(t *rapid.T) Case {
	g := &mg{t: t}
	factoryOf := ""
	defs := []val.V{call("def", sym("w"), val.I(1))}
	nm := rapid.IntRange(1, 3).Draw(t, "nmacros")
	for i := 0; i < nm; i++ {
		m := minfo{name: fmt.Sprintf("m%d", i), fixed: g.pick("nfixed", 3)}
		for j := 0; j < m.fixed; j++ {
			m.params = append(m.params, []string{"p", "q", "s"}[j])
		}
		params := []val.V{}
		for _, p := range m.params {
			params = append(params, sym(p))
		}
		if g.pick("hasrest", 3) == 0 {
			m.rest = true
			params = append(params, sym("&"), sym("r"))
		}
		var body val.V
		switch k := g.pick("bodykind", 8); {
		case k == 0 && m.fixed >= 1: // operand probe: returns the operand form itself
			body = call("list", call("quote", sym("quote")), sym(m.params[0]))
		case k == 1 && m.fixed >= 2: // explicit construction
			body = call("list", call("quote", sym("if")), sym(m.params[0]), sym(m.params[1]), val.N())
		case k == 2 && m.rest:
			body = call("cons", call("quote", sym("do")), sym("r"))
		case k == 3 && m.fixed >= 1: // recursive macro with a decreasing literal counter
			// (mK n x...) => (do x (mK n-1 x...)) while n > 0
			rec := []val.V{sym(m.name), call("unquote", call("-", sym(m.params[0]), val.I(1)))}
			for _, p := range m.params[1:] {
				rec = append(rec, call("unquote", sym(p)))
			}
			inner := val.N()
			if len(m.params) > 1 {
				inner = call("unquote", sym(m.params[1]))
			}
			if m.rest {
				rec = append(rec, call("splice-unquote", sym("r")))
			}
			body = call("if", call("<", sym(m.params[0]), val.I(1)), call("quote", call("trace!", val.K("base"))),
				call("quasiquote", call("do", inner, val.V{K: val.List, L: rec})))
			m.recursive = true
		case k == 4 && m.rest:
			// the whole expansion is a vector of the operands (the first operand may name a macro)
			body = call("quasiquote", val.Vc(call("splice-unquote", sym("r"))))
			m.vecOfRest = true
		default:
			body = call("quasiquote", g.code(3, m))
		}
		pv := val.V{K: val.List, L: params}
		if g.pick("pvec", 2) == 0 {
			pv.K = val.Vec
		}
		factory := i == 0 && !m.recursive && g.pick("factory", 4) == 0
		if factory {
			// the macro is a closure made by a factory; its template also unquotes the factory's parameter
			m.extra = []string{"k"}
			body = call("quasiquote", g.code(3, m))
			factoryOf = m.name
		}
		if g.pick("expansion-effect", 5) == 0 {
			body = call("do", call("trace!", g.nextTrace()), body) // an effect at expansion time
		}
		if factory {
			defs = append(defs, call("def", sym("mk-"+m.name), call("fn", lst(sym("k")), call("fn", pv, body))))
			defs = append(defs, call("defmacro", sym(m.name), call("mk-"+m.name, val.I(2))))
		} else {
			defs = append(defs, call("defmacro", sym(m.name), call("fn", pv, body)))
		}
		g.macros = append(g.macros, m)
	}
	// calls: recursive macros get a literal counter
	mk := func() val.V {
		m := g.macros[g.pick("callm", len(g.macros))]
		if m.recursive {
			fixed := m.fixed
			args := []val.V{val.I(g.pick("counter", 4))}
			for i := 1; i < fixed; i++ {
				args = append(args, g.operand(1))
			}
			if m.rest {
				for i := 0; i < g.pick("nrest2", 3); i++ {
					args = append(args, g.operand(1))
				}
			}
			return val.V{K: val.List, L: append([]val.V{sym(m.name)}, args...)}
		}
		save := g.macros
		// inner operands may only call non-recursive macros
		g.macros = nonRec(g.macros)
		args := []val.V{}
		for i := 0; i < m.fixed; i++ {
			args = append(args, g.operand(2))
		}
		if m.rest {
			if m.vecOfRest && len(g.macros) > 0 && g.pick("vechead", 2) == 0 {
				args = append(args, sym(g.macros[g.pick("vecheadm", len(g.macros))].name))
			}
			for i := 0; i < g.pick("nrest3", 3); i++ {
				args = append(args, g.operand(2))
			}
		}
		g.macros = save
		return val.V{K: val.List, L: append([]val.V{sym(m.name)}, args...)}
	}
	c := mk()
	switch g.pick("wrap", 7) {
	case 0: // the caller's scope decides free variables and operands
		c = call("let", lst(sym("w"), val.I(2)), c)
	case 1: // a local function of the same name is called as a function
		m := g.macros[0]
		c = call("let", lst(sym(m.name), call("fn", lst(sym("&"), sym("xs")), call("list", val.K("fn-called"), sym("xs")))),
			val.V{K: val.List, L: []val.V{sym(m.name), call("trace!", val.I(901)), call("trace!", val.I(902))}})
	case 2:
		c = call("list", c, mk())
	case 3:
		// the caller rebinds the name of the first macro to a function: expansions that
		// mention that name are evaluated in the caller's scope and must call the function
		m := g.macros[0]
		c = call("let", lst(sym(m.name), call("fn", lst(sym("&"), sym("xs")), call("list", val.K("local-fn"), sym("xs")))), c)
	}
	switch g.pick("wrap2", 8) {
	case 0:
		// the macro is reached through another global name that no defmacro ever mentioned
		if c.K == val.List && len(c.L) > 0 && c.L[0].K == val.Sym {
			for _, m := range g.macros {
				if m.name == c.L[0].S {
					defs = append(defs, call("def", sym("alias-"+m.name), sym(m.name)))
					c = val.V{K: val.List, L: append([]val.V{sym("alias-" + m.name)}, c.L[1:]...)}
					break
				}
			}
		}
	case 1:
		// … or through a local name
		if c.K == val.List && len(c.L) > 0 && c.L[0].K == val.Sym {
			for _, m := range g.macros {
				if m.name == c.L[0].S {
					c = call("let", lst(sym("u"), sym(m.name)), val.V{K: val.List, L: append([]val.V{sym("u")}, c.L[1:]...)})
					break
				}
			}
		}
	case 2:
		// … or as an argument
		if c.K == val.List && len(c.L) > 0 && c.L[0].K == val.Sym {
			for _, m := range g.macros {
				if m.name == c.L[0].S {
					c = lst(call("fn", lst(sym("u")), val.V{K: val.List, L: append([]val.V{sym("u")}, c.L[1:]...)}), sym(m.name))
					break
				}
			}
		}
	case 3:
		// a vector literal whose first element names a macro is data
		c = val.Vc(sym(g.macros[0].name), call("trace!", g.nextTrace()), sym("w"))
	}
	if factoryOf != "" || g.pick("twice", 5) == 0 {
		// the same call form, read once, is evaluated twice; in between the macro name may be re-defined
		// to another closure of the same factory
		defs = append(defs, call("def", sym("caller"), call("fn", lst(), c)))
		second := call("caller")
		if factoryOf != "" && g.pick("redef", 3) > 0 {
			second = call("do", call("defmacro", sym(factoryOf), call("mk-"+factoryOf, val.I(3))), call("caller"))
		}
		c = call("list", call("caller"), second)
	}
	return Case{Mode: "macro", Defs: defs, Call: c, Short: rapid.Bool().Draw(t, "short")}
}

func genCase(t *rapid.T) Case {
	if rapid.IntRange(0, 9).Draw(t, "mode") < 5 {
		return genTemplateCase(t)
	}
	return genMacroCase(t)
}

// ---------- independent substitution oracle for templates ----------

type sub struct {
	pool  map[string]val.V
	trace []val.V
	err   bool
}

// value of an unquoted expression of the small grammar used by uexpr
func (s *sub) uval(e val.V) (val.V, bool) {
	switch e.K {
	case val.Sym:
		v, ok := s.pool[e.S]
		return v, ok
	case val.Int:
		return e, true
	case val.List:
		if len(e.L) >= 1 && e.L[0].K == val.Sym {
			switch e.L[0].S {
			case "trace!":
				v, ok := s.uval(e.L[1])
				if !ok {
					return v, false
				}
				s.trace = append(s.trace, v)
				return v, true
			case "list":
				out := []val.V{}
				for _, a := range e.L[1:] {
					v, ok := s.uval(a)
					if !ok {
						return v, false
					}
					out = append(out, v)
				}
				return val.V{K: val.List, L: out}, true
			case "cons":
				h, ok1 := s.uval(e.L[1])
				t, ok2 := s.uval(e.L[2])
				if !ok1 || !ok2 || (t.K != val.List && t.K != val.Vec) {
					return val.V{}, false
				}
				return val.V{K: val.List, L: append([]val.V{h}, t.L...)}, true
			case "rest":
				v, ok := s.uval(e.L[1])
				if !ok || (v.K != val.List && v.K != val.Vec) {
					return val.V{}, false
				}
				if len(v.L) == 0 {
					return val.L(), true
				}
				return val.V{K: val.List, L: v.L[1:]}, true
			}
		}
	}
	return val.V{}, false
}

func isForm(v val.V, head string) bool {
	return v.K == val.List && len(v.L) == 2 && v.L[0].K == val.Sym && v.L[0].S == head
}

// expand returns the template with unquotes replaced; ok=false: an error is expected
func (s *sub) expand(t val.V) (val.V, bool) {
	switch t.K {
	case val.List:
		if isForm(t, "unquote") {
			return s.uval(t.L[1])
		}
		xs, ok := s.elems(t.L)
		return val.V{K: val.List, L: xs}, ok
	case val.Vec:
		xs, ok := s.elems(t.L)
		return val.V{K: val.Vec, L: xs}, ok
	}
	return t, true // maps, sets, symbols, atoms: literal
}

func (s *sub) elems(ts []val.V) ([]val.V, bool) {
	out := []val.V{}
	bad := false
	for _, e := range ts {
		if isForm(e, "splice-unquote") {
			v, ok := s.uval(e.L[1])
			if !ok {
				return nil, false
			}
			if v.K != val.List && v.K != val.Vec {
				bad = true // not a sequence: an error, raised after the remaining elements were evaluated
				continue
			}
			out = append(out, v.L...)
			continue
		}
		v, ok := s.expand(e)
		if !ok {
			return nil, false
		}
		out = append(out, v)
	}
	return out, !bad
}

// ---------- check ----------

func newEnv(c Case) (types.EnvType, *box.Trace) {
	e := box.CoreEnv()
	tr := box.AddTrace(e)
	for n, v := range c.Pool {
		e.Set(types.Symbol{Val: n}, val.To(v))
	}
	return e, tr
}

func evalText(ctx context.Context, e types.EnvType, src string) box.Result {
	return box.Guard(func() (types.MalType, error) {
		ast, err := lisp.READ(src, nil, e)
		if err != nil {
			return nil, fmt.Errorf("READ failed: %w", err)
		}
		return lisp.EVAL(ctx, ast, e)
	})
}

func runDefs(ctx context.Context, e types.EnvType, c Case) *box.Result {
	for _, d := range c.Defs {
		r := evalText(ctx, e, render(d, c.Short))
		if r.Panicked || r.Err != nil {
			return &r
		}
	}
	return nil
}

func check(c Case) pbt.Verdict {
	box.Silence()
	if c.Src != "" && c.Call.K == val.Nil {
		fs := box.ParseForms(c.Src)
		c.Defs, c.Call = fs[:len(fs)-1], fs[len(fs)-1]
	}
	ctx, cancel := context.WithTimeout(context.Background(), 10*time.Second)
	defer cancel()
	v := pbt.Verdict{Key: c.Text(), Labels: []string{"mode:" + c.Mode}}

	// (4) the reference interpreter on the whole program
	in := refmal.New()
	for n, pv := range c.Pool {
		in.Global.Set(n, pv)
	}
	o := in.Run(append(append([]val.V{}, c.Defs...), c.Call))
	if o.Aborted != "" {
		return pbt.Verdict{Excluded: "model-" + strings.SplitN(o.Aborted, ":", 2)[0], Labels: []string{"excluded:" + o.Aborted}}
	}
	e1, tr1 := newEnv(c)
	var r1 box.Result
	if bad := runDefs(ctx, e1, c); bad != nil {
		r1 = *bad
	} else {
		r1 = evalText(ctx, e1, render(c.Call, c.Short))
	}
	if sig, msg := box.CompareOutcome(o, r1); sig != "" {
		return pbt.Failf(c.Mode+":"+sig, "%s\nprogram:\n%s", msg, c.Text())
	}
	if d := box.CompareTrace(in.Trace, tr1.Snapshot()); d != "" {
		return pbt.Failf(c.Mode+":effects-differ", "%s\nprogram:\n%s", d, c.Text())
	}

	switch c.Mode {
	case "template":
		// (1) substitution computed by the harness
		s := &sub{pool: c.Pool}
		want, ok := s.expand(c.Call.L[1])
		if ok != (r1.Err == nil) {
			return pbt.Failf("template:error-mismatch", "substitution oracle expects error=%v, implementation error=%v (%v)\nprogram:\n%s", !ok, r1.Err != nil, r1.Err, c.Text())
		}
		if ok {
			if got := val.From(r1.Val); !val.Eq(got, want) {
				return pbt.Failf("template:wrong-expansion", "template gives %s, substitution oracle %s\nprogram:\n%s", val.Canon(got), val.Canon(want), c.Text())
			}
		}
		if d := box.CompareTrace(s.trace, tr1.Snapshot()); d != "" {
			return pbt.Failf("template:unquote-effects", "%s\nprogram:\n%s", d, c.Text())
		}
		tplText := val.Literal(c.Call.L[1])
		nSpl := strings.Count(tplText, "(splice-unquote ")
		nested := strings.Count(tplText, "(")+strings.Count(tplText, "[") >= 3
		v.NonTrivial = nSpl >= 1 && nested
		if !ok {
			v.Labels = append(v.Labels, "template:error-expected")
		}
		if nSpl > 0 {
			v.Labels = append(v.Labels, "template:has-splice")
		}
	case "macro":
		// (2) call == eval(macroexpand call), in a twin environment
		e2, tr2 := newEnv(c)
		if bad := runDefs(ctx, e2, c); bad == nil {
			x := evalText(ctx, e2, "(macroexpand "+render(c.Call, c.Short)+")")
			var r2 box.Result
			if x.Panicked || x.Err != nil {
				r2 = x
			} else {
				// the head of the expansion is no longer a macro
				if l, ok := x.Val.(types.List); ok && len(l.Val) > 0 {
					if s, ok := l.Val[0].(types.Symbol); ok {
						if hv, found := box.Lookup(e2, s.Val); found {
							if mf, ok := hv.(types.MalFunc); ok && mf.GetMacro() {
								return pbt.Failf("macro:expansion-head-is-macro", "macroexpand returned a form whose head %s is still a macro\nprogram:\n%s", s.Val, c.Text())
							}
						}
					}
				}
				r2 = box.Eval(ctx, x.Val, e2)
			}
			if r1.Panicked || r2.Panicked {
				return pbt.Failf("panic:"+r1.PanicSite+r2.PanicSite, "panic %v %v\nprogram:\n%s", r1.PanicVal, r2.PanicVal, c.Text())
			}
			if (r1.Err == nil) != (r2.Err == nil) {
				return pbt.Failf("macro:call-vs-expansion-kind", "call: err=%v, eval of macroexpand: err=%v\nprogram:\n%s", r1.Err, r2.Err, c.Text())
			}
			if r1.Err == nil && !val.Eq(val.From(r1.Val), val.From(r2.Val)) {
				return pbt.Failf("macro:call-vs-expansion-value", "call gives %s, eval of macroexpand gives %s\nprogram:\n%s", val.Canon(val.From(r1.Val)), val.Canon(val.From(r2.Val)), c.Text())
			}
			if d := box.CompareTrace(tr1.Snapshot(), tr2.Snapshot()); d != "" {
				return pbt.Failf("macro:call-vs-expansion-effects", "call vs eval-of-macroexpand: %s\nprogram:\n%s", d, c.Text())
			}
			v.Labels = append(v.Labels, "macro:twin-compared")
		}
		txt := c.Text()
		chain := strings.Count(txt, "(defmacro ") >= 2 || strings.Contains(txt, "(cond ")
		v.NonTrivial = chain
		if o.Thrown != nil {
			v.Labels = append(v.Labels, "macro:outcome-error")
		} else {
			v.Labels = append(v.Labels, "macro:outcome-value")
		}
	}
	return v
}

var P = pbt.Prop[Case]{
	ID:    "C12",
	Gen:   genCase,
	Check: check,
	Show:  func(c Case) any { return c.Text() },
}

func TestMain(m *testing.M)   { pbt.Main(m) }
func TestProp(t *testing.T)   { pbt.Run(t, P) }
func TestCorpus(t *testing.T) { pbt.Corpus(t, P) }
func TestReplay(t *testing.T) { pbt.Replay(t, P) }
