package c13

import (
	"sort"
	"unicode/utf8"

	"verifharness/internal/val"
)

// R is the model's verdict for one call.
type R struct {
	Zone string // "D" value documented, "O" outside the domain: must be an error, "U" unspecified: not judged
	V    val.V
	Bag  bool   // V is a list whose order is unspecified (keys, vals, seq of a set…)
	Why  string // for U: the reason
}

func D(v val.V) R           { return R{Zone: "D", V: v} }
func DBag(v val.V) R        { return R{Zone: "D", V: v, Bag: true} }
func O() R                  { return R{Zone: "O"} }
func U(why string) R        { return R{Zone: "U", Why: why} }
func isSeq(v val.V) bool    { return v.K == val.List || v.K == val.Vec }
func isKey(v val.V) bool    { return v.K == val.Str || v.K == val.Kw }
func keyOf(v val.V) string  { k, _ := val.KeyOf(v); return k }
func list(xs []val.V) val.V { return val.V{K: val.List, L: append([]val.V{}, xs...)} }
func vec(xs []val.V) val.V  { return val.V{K: val.Vec, L: append([]val.V{}, xs...)} }

func copyMap(m map[string]val.V) map[string]val.V {
	out := make(map[string]val.V, len(m))
	for k, v := range m {
		out[k] = v
	}
	return out
}

func sortedKeys(m map[string]val.V) []string {
	ks := make([]string, 0, len(m))
	for k := range m {
		ks = append(ks, k)
	}
	sort.Strings(ks)
	return ks
}

// Fn is a function argument with a model of its own.
type Fn struct {
	Src   string
	Apply func(args []val.V) R
}

var fnCatalog = map[string]Fn{}

func init() {
	one := func(f func(x val.V) R) func([]val.V) R {
		return func(a []val.V) R {
			if len(a) != 1 {
				return O()
			}
			return f(a[0])
		}
	}
	fnCatalog["id"] = Fn{"(fn (x) x)", one(func(x val.V) R { return D(x) })}
	fnCatalog["wrap"] = Fn{"(fn (x) (list x))", one(func(x val.V) R { return D(val.L(x)) })}
	fnCatalog["const"] = Fn{"(fn (x) :k)", one(func(x val.V) R { return D(val.K("k")) })}
	fnCatalog["niler"] = Fn{"(fn (x) nil)", one(func(x val.V) R { return D(val.N()) })}
	fnCatalog["inc"] = Fn{"(fn (x) (+ x 1))", one(func(x val.V) R {
		if x.K != val.Int {
			return O()
		}
		return D(val.I(x.I + 1))
	})}
	fnCatalog["rest-args"] = Fn{"(fn (& xs) xs)", func(a []val.V) R { return D(list(a)) }}
	fnCatalog["two"] = Fn{"(fn (a b) [b a])", func(a []val.V) R {
		if len(a) != 2 {
			return O()
		}
		return D(val.Vc(a[1], a[0]))
	}}
}

// model: the abstract model of ordered sequences, unordered string-keyed maps and string sets.
// fnArg: for higher-order builtins, the catalogue name of the function argument ("" if the
// argument in function position is not a catalogue function).
func model(fn string, a []val.V, bag []bool, fnArg *Fn, builtinFn string) R {
	n := len(a)
	// order-unspecified inputs with more than one element poison order-sensitive consumers
	for i, b := range bag {
		if b && len(a[i].L) > 1 {
			switch fn {
			case "count", "empty?", "set", "list?", "vector?", "sequential?", "nil?", "map?", "set?":
			default:
				return U("order of keys/vals/set elements is unspecified")
			}
		}
	}
	arity := func(k int) bool { return n == k }
	switch fn {
	case "list":
		return D(list(a))
	case "vector":
		return D(vec(a))
	case "cons":
		if !arity(2) {
			return O()
		}
		if a[1].K == val.Nil {
			return U("cons onto nil")
		}
		if !isSeq(a[1]) {
			return O()
		}
		return D(list(append([]val.V{a[0]}, a[1].L...)))
	case "concat":
		out := []val.V{}
		sawNil := false
		for _, x := range a {
			if x.K == val.Nil {
				sawNil = true
				continue
			}
			if !isSeq(x) {
				return O()
			}
			out = append(out, x.L...)
		}
		if sawNil {
			return U("concat of nil")
		}
		return D(list(out))
	case "vec":
		if !arity(1) {
			return O()
		}
		switch a[0].K {
		case val.List, val.Vec:
			return D(vec(a[0].L))
		case val.Set:
			xs := []val.V{}
			for _, k := range a[0].St {
				xs = append(xs, val.FromKey(k))
			}
			return DBag(vec(xs))
		case val.Nil:
			return U("vec of nil")
		case val.Str, val.Map:
			return U("vec of a string/map")
		}
		return O()
	case "nth":
		if !arity(2) {
			return O()
		}
		if a[0].K == val.Nil && a[1].K == val.Int {
			return U("nth of nil")
		}
		if a[0].K == val.Str {
			return U("nth of a string")
		}
		if !isSeq(a[0]) || a[1].K != val.Int {
			return O()
		}
		if a[1].I < 0 || a[1].I >= len(a[0].L) {
			return O()
		}
		return D(a[0].L[a[1].I])
	case "first":
		if !arity(1) {
			return O()
		}
		switch a[0].K {
		case val.Nil:
			return D(val.N())
		case val.List, val.Vec:
			if len(a[0].L) == 0 {
				return D(val.N())
			}
			return D(a[0].L[0])
		case val.Str, val.Set, val.Map:
			return U("first of a string/set/map")
		}
		return O()
	case "rest":
		if !arity(1) {
			return O()
		}
		switch a[0].K {
		case val.Nil:
			return D(val.L())
		case val.List, val.Vec:
			if len(a[0].L) == 0 {
				return D(val.L())
			}
			return D(list(a[0].L[1:]))
		case val.Str, val.Set, val.Map:
			return U("rest of a string/set/map")
		}
		return O()
	case "count", "empty?":
		if !arity(1) {
			return O()
		}
		c := -1
		switch a[0].K {
		case val.Nil:
			c = 0
		case val.List, val.Vec:
			c = len(a[0].L)
		case val.Map:
			c = len(a[0].M)
		case val.Set:
			c = len(a[0].St)
		case val.Str:
			return U("count/empty? of a string")
		}
		if c < 0 {
			return O()
		}
		if fn == "count" {
			return D(val.I(c))
		}
		return D(val.B(c == 0))
	case "conj":
		if n < 1 {
			return O()
		}
		if n < 2 {
			return U("conj without elements")
		}
		switch a[0].K {
		case val.List:
			out := []val.V{}
			for i := n - 1; i >= 1; i-- {
				out = append(out, a[i])
			}
			return D(list(append(out, a[0].L...)))
		case val.Vec:
			return D(vec(append(append([]val.V{}, a[0].L...), a[1:]...)))
		case val.Map:
			if (n-1)%2 != 0 {
				if n == 2 && (a[1].K == val.Map || a[1].K == val.Vec || a[1].K == val.Nil) {
					return U("conj of a map entry/map onto a map")
				}
				return O()
			}
			m := copyMap(a[0].M)
			for i := 1; i < n; i += 2 {
				if !isKey(a[i]) {
					return O()
				}
				m[keyOf(a[i])] = a[i+1]
			}
			return D(val.M(m))
		case val.Set:
			ks := append([]string{}, a[0].St...)
			for _, x := range a[1:] {
				if !isKey(x) {
					return O()
				}
				ks = append(ks, keyOf(x))
			}
			return D(val.SetOf(ks...))
		case val.Nil:
			return U("conj onto nil")
		}
		return O()
	case "seq":
		if !arity(1) {
			return O()
		}
		switch a[0].K {
		case val.Nil:
			return D(val.N())
		case val.List:
			if len(a[0].L) == 0 {
				return D(val.N())
			}
			return D(a[0])
		case val.Vec:
			if len(a[0].L) == 0 {
				return D(val.N())
			}
			return D(list(a[0].L))
		case val.Str:
			if a[0].S == "" {
				return D(val.N())
			}
			xs := []val.V{}
			for _, r := range a[0].S {
				xs = append(xs, val.S(string(r)))
			}
			if !utf8.ValidString(a[0].S) {
				return U("invalid UTF-8")
			}
			return D(list(xs))
		case val.Set:
			if len(a[0].St) == 0 {
				return U("seq of an empty set: nil or ()")
			}
			xs := []val.V{}
			for _, k := range a[0].St {
				xs = append(xs, val.FromKey(k))
			}
			return DBag(list(xs))
		case val.Map:
			return U("seq of a map")
		}
		return O()
	case "map":
		if !arity(2) {
			return O()
		}
		if a[1].K == val.Nil {
			return U("map over nil")
		}
		if a[1].K == val.Str || a[1].K == val.Set || a[1].K == val.Map {
			return U("map over a string/set/map")
		}
		if !isSeq(a[1]) {
			return O()
		}
		if fnArg == nil {
			if len(a[1].L) == 0 {
				return U("map of a non-function over an empty sequence")
			}
			return O()
		}
		out := []val.V{}
		for _, x := range a[1].L {
			r := fnArg.Apply([]val.V{x})
			if r.Zone != "D" {
				return r
			}
			out = append(out, r.V)
		}
		return D(list(out))
	case "apply":
		if n < 2 {
			return O()
		}
		last := a[n-1]
		if last.K == val.Nil {
			return U("apply with nil as last argument")
		}
		if last.K == val.Str || last.K == val.Set || last.K == val.Map {
			return U("apply with a string/set/map as last argument")
		}
		if !isSeq(last) {
			return O()
		}
		args := append(append([]val.V{}, a[1:n-1]...), last.L...)
		if fnArg != nil {
			return fnArg.Apply(args)
		}
		if builtinFn != "" {
			return model(builtinFn, args, make([]bool, len(args)), nil, "")
		}
		return O()
	case "take", "drop", "drop-last", "take-last":
		if !arity(2) {
			return O()
		}
		if a[0].K != val.Int {
			return O()
		}
		k := a[0].I
		if k < 0 {
			k = 0
		}
		var xs []val.V
		switch a[1].K {
		case val.Nil:
			xs = nil
		case val.List, val.Vec:
			xs = a[1].L
		case val.Str, val.Set, val.Map:
			return U(fn + " of a string/set/map")
		default:
			return O()
		}
		if k > len(xs) {
			k = len(xs)
		}
		switch fn {
		case "take":
			return D(list(xs[:k]))
		case "drop":
			return D(list(xs[k:]))
		case "drop-last":
			return D(list(xs[:len(xs)-k]))
		default:
			r := xs[len(xs)-k:]
			if len(r) == 0 {
				return D(val.N())
			}
			return D(list(r))
		}
	case "subvec":
		if n != 2 && n != 3 {
			return O()
		}
		if a[0].K != val.Vec || a[1].K != val.Int || (n == 3 && a[2].K != val.Int) {
			return O()
		}
		from, to := a[1].I, len(a[0].L)
		if n == 3 {
			to = a[2].I
		}
		if from < 0 || to > len(a[0].L) || from > to {
			return O()
		}
		return D(vec(a[0].L[from:to]))
	case "range":
		if !arity(2) || a[0].K != val.Int || a[1].K != val.Int {
			return O()
		}
		xs := []val.V{}
		for i := a[0].I; i < a[1].I; i++ {
			xs = append(xs, val.I(i))
		}
		return D(vec(xs))
	case "hash-map":
		if n == 0 {
			return D(val.M(map[string]val.V{}))
		}
		if n == 1 {
			return U("hash-map of one argument (Go object conversion)")
		}
		if n%2 != 0 {
			return O()
		}
		m := map[string]val.V{}
		for i := 0; i < n; i += 2 {
			if !isKey(a[i]) {
				return O()
			}
			m[keyOf(a[i])] = a[i+1]
		}
		return D(val.M(m))
	case "assoc":
		if n < 1 {
			return O()
		}
		switch a[0].K {
		case val.Map:
			if n < 3 || n%2 != 1 {
				return O()
			}
			m := copyMap(a[0].M)
			for i := 1; i < n; i += 2 {
				if !isKey(a[i]) {
					return O()
				}
				m[keyOf(a[i])] = a[i+1]
			}
			return D(val.M(m))
		case val.Vec:
			if n < 3 || n%2 != 1 {
				return O()
			}
			out := append([]val.V{}, a[0].L...)
			for i := 1; i < n; i += 2 {
				if a[i].K != val.Int {
					return O()
				}
				if a[i].I == len(out) {
					return U("assoc on a vector at index == count")
				}
				if a[i].I < 0 || a[i].I > len(out) {
					return O()
				}
				out[a[i].I] = a[i+1]
			}
			return D(vec(out))
		case val.Set:
			if n < 2 {
				return O()
			}
			ks := append([]string{}, a[0].St...)
			for _, x := range a[1:] {
				if !isKey(x) {
					return O()
				}
				ks = append(ks, keyOf(x))
			}
			return D(val.SetOf(ks...))
		case val.Nil:
			return U("assoc on nil")
		}
		return O()
	case "dissoc":
		if n < 1 {
			return O()
		}
		if a[0].K == val.Nil {
			return U("dissoc on nil")
		}
		if a[0].K != val.Map && a[0].K != val.Set {
			return O()
		}
		if n < 2 {
			return U("dissoc without keys")
		}
		for _, x := range a[1:] {
			if !isKey(x) {
				return O()
			}
		}
		if a[0].K == val.Map {
			m := copyMap(a[0].M)
			for _, x := range a[1:] {
				delete(m, keyOf(x))
			}
			return D(val.M(m))
		}
		drop := map[string]bool{}
		for _, x := range a[1:] {
			drop[keyOf(x)] = true
		}
		ks := []string{}
		for _, k := range a[0].St {
			if !drop[k] {
				ks = append(ks, k)
			}
		}
		return D(val.SetOf(ks...))
	case "get":
		if !arity(2) {
			return O()
		}
		if a[0].K == val.Nil {
			return D(val.N())
		}
		switch a[0].K {
		case val.Map:
			if isKey(a[1]) {
				if v, ok := a[0].M[keyOf(a[1])]; ok {
					return D(v)
				}
				return D(val.N())
			}
			if a[1].K == val.Int {
				return U("get on a map with an integer key")
			}
			return O()
		case val.Set:
			if isKey(a[1]) {
				for _, k := range a[0].St {
					if k == keyOf(a[1]) {
						return D(a[1])
					}
				}
				return D(val.N())
			}
			if a[1].K == val.Int {
				return U("get on a set with an integer key")
			}
			return O()
		case val.List, val.Vec:
			if a[1].K == val.Int {
				if a[1].I >= 0 && a[1].I < len(a[0].L) {
					return D(a[0].L[a[1].I])
				}
				return U("get on a sequence with an index out of range")
			}
			if isKey(a[1]) {
				return U("get on a sequence with a string key")
			}
			return O()
		case val.Str:
			return U("get on a string")
		}
		return O()
	case "contains?":
		if !arity(2) {
			return O()
		}
		if !isKey(a[1]) {
			if a[0].K == val.Vec && a[1].K == val.Int {
				return U("contains? on a vector")
			}
			return O()
		}
		switch a[0].K {
		case val.Nil:
			return D(val.B(false))
		case val.Map:
			_, ok := a[0].M[keyOf(a[1])]
			return D(val.B(ok))
		case val.Set:
			for _, k := range a[0].St {
				if k == keyOf(a[1]) {
					return D(val.B(true))
				}
			}
			return D(val.B(false))
		case val.Vec, val.List, val.Str:
			return U("contains? on a sequence/string")
		}
		return O()
	case "keys", "vals":
		if !arity(1) {
			return O()
		}
		if a[0].K == val.Nil {
			return U(fn + " of nil")
		}
		if a[0].K != val.Map {
			return O()
		}
		xs := []val.V{}
		for _, k := range sortedKeys(a[0].M) {
			if fn == "keys" {
				xs = append(xs, val.FromKey(k))
			} else {
				xs = append(xs, a[0].M[k])
			}
		}
		return DBag(list(xs))
	case "merge":
		if !arity(2) {
			return O()
		}
		for _, x := range a {
			if x.K != val.Nil && x.K != val.Map {
				return O()
			}
		}
		if a[0].K == val.Nil && a[1].K == val.Nil {
			return D(val.N())
		}
		m := map[string]val.V{}
		for _, x := range a {
			for k, v := range x.M {
				m[k] = v
			}
		}
		return D(val.M(m))
	case "rename-keys":
		if !arity(2) {
			return O()
		}
		if a[0].K != val.Map || a[1].K != val.Map {
			if a[0].K == val.Nil || a[1].K == val.Nil {
				return U("rename-keys with nil")
			}
			return O()
		}
		targets := map[string]int{}
		for old, nk := range a[1].M {
			if _, present := a[0].M[old]; !present {
				continue
			}
			if !isKey(nk) {
				return O()
			}
			targets[keyOf(nk)]++
		}
		for _, c := range targets {
			if c > 1 {
				return U("two keys renamed to the same new key")
			}
		}
		m := map[string]val.V{}
		for k, v := range a[0].M {
			if _, renamed := a[1].M[k]; !renamed {
				m[k] = v
			}
		}
		for k, v := range a[0].M {
			if nk, renamed := a[1].M[k]; renamed {
				m[keyOf(nk)] = v
			}
		}
		return D(val.M(m))
	case "get-in":
		if !arity(2) {
			return O()
		}
		if a[0].K == val.Nil {
			return D(val.N())
		}
		if a[1].K != val.Vec {
			if a[1].K == val.List || a[1].K == val.Nil {
				return U("get-in with a list/nil path")
			}
			return O()
		}
		cur := a[0]
		for _, k := range a[1].L {
			if !isKey(k) {
				return U("get-in with a non-string key in the path")
			}
		}
		for _, k := range a[1].L {
			if cur.K == val.Nil {
				return D(val.N())
			}
			if cur.K != val.Map || !isKey(k) {
				return U("get-in through a non-map / with a non-string key")
			}
			v, ok := cur.M[keyOf(k)]
			if !ok {
				cur = val.N()
			} else {
				cur = v
			}
		}
		return D(cur)
	case "assoc-in":
		if !arity(3) {
			return O()
		}
		if a[1].K != val.Vec {
			return O()
		}
		r, ok := assocIn(a[0], a[1].L, func(val.V) R { return D(a[2]) }, true)
		if !ok {
			return U("assoc-in through a non-map / with a non-string key / on nil")
		}
		return r
	case "update":
		if !arity(3) {
			return O()
		}
		if a[0].K == val.Nil {
			return D(val.N())
		}
		if fnArg == nil {
			return O()
		}
		switch a[0].K {
		case val.Map:
			if !isKey(a[1]) {
				return O()
			}
			r := fnArg.Apply([]val.V{orNil(a[0].M, keyOf(a[1]))})
			if r.Zone != "D" {
				return r
			}
			m := copyMap(a[0].M)
			m[keyOf(a[1])] = r.V
			return D(val.M(m))
		case val.Vec:
			if a[1].K != val.Int {
				return O()
			}
			if a[1].I == len(a[0].L) {
				return U("update on a vector at index == count")
			}
			if a[1].I < 0 || a[1].I > len(a[0].L) {
				return O()
			}
			r := fnArg.Apply([]val.V{a[0].L[a[1].I]})
			if r.Zone != "D" {
				return r
			}
			out := append([]val.V{}, a[0].L...)
			out[a[1].I] = r.V
			return D(vec(out))
		case val.List, val.Set, val.Str:
			return U("update on a list/set/string")
		}
		return O()
	case "update-in":
		if !arity(3) {
			return O()
		}
		if a[1].K != val.Vec {
			return O()
		}
		if a[0].K == val.Nil {
			return D(val.N())
		}
		if len(a[1].L) == 0 {
			return D(a[0])
		}
		if fnArg == nil {
			return O()
		}
		r, ok := assocIn(a[0], a[1].L, func(old val.V) R { return fnArg.Apply([]val.V{old}) }, false)
		if !ok {
			return U("update-in through a non-map / with a non-string key")
		}
		return r
	case "set":
		if !arity(1) {
			return O()
		}
		switch a[0].K {
		case val.Nil:
			return D(val.SetOf())
		case val.List, val.Vec:
			ks := []string{}
			for _, x := range a[0].L {
				if !isKey(x) {
					return O()
				}
				ks = append(ks, keyOf(x))
			}
			return D(val.SetOf(ks...))
		case val.Set, val.Str, val.Map:
			return U("set of a set/string/map")
		}
		return O()
	case "hash-set":
		ks := []string{}
		for _, x := range a {
			if !isKey(x) {
				return O()
			}
			ks = append(ks, keyOf(x))
		}
		return D(val.SetOf(ks...))
	case "nil?", "true?", "false?", "symbol?", "keyword?", "string?", "number?", "fn?", "macro?", "list?", "vector?", "map?", "set?", "sequential?":
		if !arity(1) {
			return O()
		}
		x := a[0]
		var b bool
		switch fn {
		case "nil?":
			b = x.K == val.Nil
		case "true?":
			b = x.K == val.Bool && x.B
		case "false?":
			b = x.K == val.Bool && !x.B
		case "symbol?":
			b = x.K == val.Sym
		case "keyword?":
			b = x.K == val.Kw
		case "string?":
			b = x.K == val.Str
		case "number?":
			b = x.K == val.Int
		case "fn?":
			b = fnArg != nil || builtinFn != ""
		case "macro?":
			b = false
		case "list?":
			b = x.K == val.List
		case "vector?":
			b = x.K == val.Vec
		case "map?":
			b = x.K == val.Map
		case "set?":
			b = x.K == val.Set
		case "sequential?":
			b = isSeq(x)
		}
		return D(val.B(b))
	}
	return U("no model for " + fn)
}

func orNil(m map[string]val.V, k string) val.V {
	if v, ok := m[k]; ok {
		return v
	}
	return val.N()
}

// assocIn walks a path of string/keyword keys through nested maps (missing keys are
// created as maps) and replaces the leaf by leaf(old). ok=false: outside the documented domain.
func assocIn(root val.V, path []val.V, leaf func(old val.V) R, mixed bool) (R, bool) {
	if len(path) == 0 {
		return D(root), true
	}
	k := path[0]
	// the documented containers are hash maps and vectors
	var cur val.V
	switch root.K {
	case val.Map:
		if !isKey(k) {
			return R{}, false
		}
		cur = orNil(root.M, keyOf(k))
	case val.Vec:
		if k.K != val.Int {
			return O(), true
		}
		if k.I < 0 || k.I > len(root.L) {
			return O(), true
		}
		if k.I == len(root.L) {
			return R{}, false // index == count: unspecified (as for assoc)
		}
		cur = root.L[k.I]
	case val.Int, val.Bool, val.Kw, val.Sym:
		return O(), true // a path that leads through a scalar
	default:
		return R{}, false
	}
	var nv val.V
	if len(path) == 1 {
		r := leaf(cur)
		if r.Zone != "D" {
			return r, true
		}
		nv = r.V
	} else {
		if cur.K == val.Nil {
			if root.K == val.Vec {
				return R{}, false // a nil element of a vector becomes an empty vector: the next index is == count
			}
			cur = val.M(map[string]val.V{})
		}
		if !mixed && (cur.K == val.Map || cur.K == val.Vec) && cur.K != root.K {
			// update-in is only documented for maps nested in maps and vectors nested in vectors
			return R{}, false
		}
		r, ok := assocIn(cur, path[1:], leaf, mixed)
		if !ok {
			return R{}, false
		}
		if r.Zone != "D" {
			return r, true
		}
		nv = r.V
	}
	if root.K == val.Vec {
		out := append([]val.V{}, root.L...)
		out[k.I] = nv
		return D(vec(out)), true
	}
	m := copyMap(root.M)
	m[keyOf(k)] = nv
	return D(val.M(m)), true
}
