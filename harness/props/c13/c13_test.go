package c13

import (
	"context"
	"fmt"
	"sort"
	"strings"
	"testing"
	"time"

	"github.com/jig/lisp/types"
	"pgregory.net/rapid"

	"verifharness/internal/box"
	"verifharness/internal/gen"
	"verifharness/internal/pbt"
	"verifharness/internal/val"
)

// Node: a literal, a function reference, or a call (f args…).
type Node struct {
	Fn   string `json:",omitempty"` // builtin called
	Lit  *val.V `json:",omitempty"`
	Ref  string `json:",omitempty"` // function argument: "f:<catalogue name>" or "b:<builtin name>"
	Args []Node `json:",omitempty"`
}

type Case struct {
	Expr Node
}

func (n Node) Text() string {
	switch {
	case n.Lit != nil:
		return val.Quoted(*n.Lit)
	case n.Ref != "":
		if strings.HasPrefix(n.Ref, "f:") {
			return fnCatalog[n.Ref[2:]].Src
		}
		return n.Ref[2:]
	}
	parts := []string{n.Fn}
	for _, a := range n.Args {
		parts = append(parts, a.Text())
	}
	return "(" + strings.Join(parts, " ") + ")"
}

func (n Node) depth() int {
	d := 0
	for _, a := range n.Args {
		if x := a.depth(); x > d {
			d = x
		}
	}
	if n.Fn != "" {
		d++
	}
	return d
}

// roles of the arguments of each builtin (a trailing * repeats 0..3 times)
var roles = map[string][]string{
	"list": {"any*"}, "vector": {"any*"}, "cons": {"any", "seq"}, "concat": {"seq*"}, "vec": {"seqset"},
	"nth": {"seq", "idx"}, "first": {"seqnil"}, "rest": {"seqnil"}, "count": {"coll"}, "empty?": {"coll"},
	"conj": {"coll", "conjitems"}, "seq": {"seqable"}, "map": {"fn1", "seq"}, "apply": {"fnN", "any*", "seq"},
	"take": {"idx", "seqnil"}, "take-last": {"idx", "seqnil"}, "drop": {"idx", "seqnil"}, "drop-last": {"idx", "seqnil"},
	"subvec": {"vec", "idx", "idx?"}, "range": {"idx", "idx"}, "hash-map": {"kv*"}, "assoc": {"assoctarget", "assocargs"},
	"dissoc": {"mapset", "key*"}, "get": {"getcoll", "keyidx"}, "contains?": {"mapsetnil", "key"}, "keys": {"map"}, "vals": {"map"},
	"merge": {"mapnil", "mapnil"}, "rename-keys": {"map", "kmap"}, "get-in": {"nestedmap", "path"}, "assoc-in": {"nestedmap", "path", "any"},
	"update": {"updtarget", "keyidx", "fn1"}, "update-in": {"nestedmap", "path", "fn1"}, "set": {"keyseq"}, "hash-set": {"key*"},
	"nil?": {"any"}, "true?": {"any"}, "false?": {"any"}, "symbol?": {"any"}, "keyword?": {"any"}, "string?": {"any"}, "number?": {"any"},
	"fn?": {"anyfn"}, "macro?": {"any"}, "list?": {"any"}, "vector?": {"any"}, "map?": {"any"}, "set?": {"any"}, "sequential?": {"any"},
}

var builtinNames []string

func init() {
	for k := range roles {
		builtinNames = append(builtinNames, k)
	}
	sort.Strings(builtinNames)
}

// producers of each kind, used for compositions
var producers = map[string][]string{
	"seq":  {"list", "vector", "cons", "concat", "vec", "rest", "conj", "seq", "map", "take", "drop", "drop-last", "take-last", "subvec", "range", "keys", "vals", "apply"},
	"vec":  {"vector", "vec", "subvec", "range", "conj", "assoc"},
	"map":  {"hash-map", "assoc", "dissoc", "merge", "rename-keys", "assoc-in", "update", "update-in", "conj"},
	"set":  {"set", "hash-set", "conj", "dissoc", "assoc"},
	"int":  {"count", "nth", "first"},
	"bool": {"empty?", "contains?", "nil?", "list?"},
}

var dataOpts = gen.Opts{Str: gen.StrPlain, SmallInt: true, Syms: true}

type cg struct {
	t *rapid.T
}

func (g *cg) pick(label string, n int) int { return gen.Uniform(g.t, label, n) }

func lit(v val.V) Node { return Node{Lit: &v} }

func (g *cg) keyV() val.V {
	if g.pick("kk", 3) == 0 {
		return val.S(rapid.SampledFrom([]string{"a", "b", "k", ""}).Draw(g.t, "skey"))
	}
	return val.K(rapid.SampledFrom([]string{"a", "b", "c", "k"}).Draw(g.t, "kwkey"))
}

func (g *cg) anyV(d int) val.V { return gen.Data(g.t, "any", d, dataOpts) }

func (g *cg) seqV() val.V {
	n := g.pick("sn", 5)
	xs := make([]val.V, n)
	for i := range xs {
		xs[i] = g.anyV(1)
	}
	if g.pick("svec", 2) == 0 {
		return val.V{K: val.Vec, L: xs}
	}
	return val.V{K: val.List, L: xs}
}

func (g *cg) mapV(d int) val.V {
	m := map[string]val.V{}
	for i, n := 0, g.pick("mn", 4); i < n; i++ {
		k, _ := val.KeyOf(g.keyV())
		if d > 0 && g.pick("nest", 3) == 0 {
			m[k] = g.mapV(d - 1)
		} else {
			m[k] = g.anyV(1)
		}
	}
	return val.M(m)
}

func (g *cg) setV() val.V {
	ks := []string{}
	for i, n := 0, g.pick("setn", 4); i < n; i++ {
		k, _ := val.KeyOf(g.keyV())
		ks = append(ks, k)
	}
	return val.SetOf(ks...)
}

// arg draws one argument for a role; with a small probability a value of the wrong kind
func (g *cg) arg(role string, d int) []Node {
	wrong := func() Node { return lit(g.anyV(2)) }
	if g.pick("wrong?", 14) == 0 && !strings.HasSuffix(role, "*") {
		return []Node{wrong()}
	}
	one := func(n Node) []Node { return []Node{n} }
	sub := func(kind string) Node {
		if d > 0 && g.pick("compose", 3) == 0 {
			return g.produce(kind, d-1)
		}
		switch kind {
		case "seq":
			return lit(g.seqV())
		case "vec":
			v := g.seqV()
			v.K = val.Vec
			return lit(v)
		case "map":
			return lit(g.mapV(1))
		case "set":
			return lit(g.setV())
		case "int":
			return lit(val.I(rapid.IntRange(-2, 6).Draw(g.t, "int")))
		}
		return lit(g.anyV(2))
	}
	many := func(f func() Node) []Node {
		out := []Node{}
		for i, n := 0, g.pick("many", 4); i < n; i++ {
			out = append(out, f())
		}
		return out
	}
	switch role {
	case "any":
		return one(sub("any"))
	case "any*":
		return many(func() Node { return sub("any") })
	case "anyfn":
		if g.pick("isfn", 3) == 0 {
			return one(Node{Ref: "f:id"})
		}
		if g.pick("isbuiltin", 3) == 0 {
			return one(Node{Ref: "b:list"})
		}
		return one(sub("any"))
	case "seq":
		return one(sub("seq"))
	case "seq*":
		return many(func() Node { return sub("seq") })
	case "vec":
		return one(sub("vec"))
	case "map":
		return one(sub("map"))
	case "seqnil", "seqable", "coll", "seqset", "mapset", "mapsetnil", "mapnil", "getcoll", "assoctarget", "updtarget", "keyseq":
		opts := map[string][]string{
			"seqnil": {"seq", "seq", "seq", "nil"}, "seqable": {"seq", "seq", "nil", "str", "set"}, "coll": {"seq", "map", "set", "nil"},
			"seqset": {"seq", "seq", "set"}, "mapset": {"map", "map", "set"}, "mapsetnil": {"map", "set", "nil"}, "mapnil": {"map", "map", "map", "nil"},
			"getcoll": {"map", "map", "set", "vec", "seq", "nil"}, "assoctarget": {"map", "map", "vec", "set"}, "updtarget": {"map", "map", "vec", "nil"},
			"keyseq": {"keyseq", "keyseq", "nil"},
		}[role]
		switch k := opts[g.pick("opt", len(opts))]; k {
		case "nil":
			return one(lit(val.N()))
		case "str":
			return one(lit(val.S(gen.Str(g.t, "str", gen.Opts{Str: gen.StrHot, NoNUL: true, NoKwMark: true}))))
		case "keyseq":
			xs := []val.V{}
			for i, n := 0, g.pick("ksn", 4); i < n; i++ {
				xs = append(xs, g.keyV())
			}
			return one(lit(val.V{K: val.Vec, L: xs}))
		default:
			return one(sub(k))
		}
	case "idx":
		return one(sub("int"))
	case "idx?":
		if g.pick("hasidx", 2) == 0 {
			return nil
		}
		return one(sub("int"))
	case "key":
		return one(lit(g.keyV()))
	case "key*":
		return many(func() Node { return lit(g.keyV()) })
	case "keyidx":
		if g.pick("ki", 3) == 0 {
			return one(lit(val.I(rapid.IntRange(-1, 4).Draw(g.t, "kidx"))))
		}
		return one(lit(g.keyV()))
	case "kv*":
		out := []Node{}
		for i, n := 0, g.pick("kvn", 4); i < n; i++ {
			out = append(out, lit(g.keyV()), sub("any"))
		}
		if g.pick("oddkv", 12) == 0 {
			out = append(out, lit(g.keyV()))
		}
		return out
	case "conjitems":
		return many(func() Node {
			if g.pick("cjk", 2) == 0 {
				return lit(g.keyV())
			}
			return sub("any")
		})
	case "assocargs":
		out := []Node{}
		for i, n := 0, 1+g.pick("an", 2); i < n; i++ {
			if g.pick("aidx", 3) == 0 {
				out = append(out, lit(val.I(rapid.IntRange(-1, 4).Draw(g.t, "aidxv"))))
			} else {
				out = append(out, lit(g.keyV()))
			}
			out = append(out, sub("any"))
		}
		if g.pick("oddassoc", 12) == 0 {
			out = out[:len(out)-1]
		}
		return out
	case "kmap":
		m := map[string]val.V{}
		if g.pick("kmcycle", 3) == 0 {
			// targets that are sources too: a swap, a rotation or a chain over the usual keys
			ks := []val.V{val.K("a"), val.K("b"), val.K("c"), val.K("k"), val.S("a")}
			n := 2 + g.pick("kmcn", 2)
			start := g.pick("kmcs", len(ks))
			closed := g.pick("kmclosed", 2) == 0
			for i := 0; i < n; i++ {
				if i == n-1 && !closed {
					break
				}
				k, _ := val.KeyOf(ks[(start+i)%len(ks)])
				m[k] = ks[(start+(i+1)%n)%len(ks)]
			}
			return one(lit(val.M(m)))
		}
		for i, n := 0, g.pick("kmn", 3); i < n; i++ {
			k, _ := val.KeyOf(g.keyV())
			m[k] = g.keyV()
		}
		return one(lit(val.M(m)))
	case "nestedmap":
		if g.pick("nmnil", 8) == 0 {
			return one(lit(val.N()))
		}
		if d > 0 && g.pick("nmcomp", 4) == 0 {
			return one(g.produce("map", d-1))
		}
		if g.pick("nmvec", 4) == 0 {
			// maps that hold vectors (of maps), or a vector at the root
			inner := val.Vc(val.I(1), g.mapV(1), val.Vc(val.I(2), val.I(3)), val.N())
			if g.pick("nmroot", 2) == 0 {
				return one(lit(inner))
			}
			k1, _ := val.KeyOf(g.keyV())
			m := g.mapV(1)
			m.M[k1] = inner
			return one(lit(m))
		}
		return one(lit(g.mapV(2)))
	case "path":
		xs := []val.V{}
		for i, n := 0, g.pick("pn", 4); i < n; i++ {
			if g.pick("pint", 4) == 0 {
				xs = append(xs, val.I(g.pick("pidx", 5)-1))
				continue
			}
			xs = append(xs, g.keyV())
		}
		return one(lit(val.V{K: val.Vec, L: xs}))
	case "fn1":
		return one(Node{Ref: "f:" + rapid.SampledFrom([]string{"id", "wrap", "const", "niler", "inc"}).Draw(g.t, "fn1")})
	case "fnN":
		if g.pick("fnb", 2) == 0 {
			return one(Node{Ref: "b:" + rapid.SampledFrom([]string{"list", "vector", "hash-map", "concat", "conj", "count", "hash-set", "cons"}).Draw(g.t, "fnb")})
		}
		return one(Node{Ref: "f:" + rapid.SampledFrom([]string{"rest-args", "two", "id", "inc"}).Draw(g.t, "fnN")})
	}
	return one(lit(g.anyV(1)))
}

func (g *cg) call(fn string, d int) Node {
	n := Node{Fn: fn}
	for _, r := range roles[fn] {
		n.Args = append(n.Args, g.arg(r, d)...)
	}
	// index arguments: two thirds of the time inside the range of a literal sequence argument
	if (fn == "nth" || fn == "subvec" || fn == "assoc" || fn == "update" || fn == "get") && len(n.Args) >= 2 && n.Args[0].Lit != nil &&
		(n.Args[0].Lit.K == val.Vec || n.Args[0].Lit.K == val.List) && g.pick("validx", 3) > 0 {
		ln := len(n.Args[0].Lit.L)
		if fn == "subvec" {
			from := g.pick("from", ln+1)
			n.Args[1] = lit(val.I(from))
			if len(n.Args) >= 3 {
				n.Args[2] = lit(val.I(from + g.pick("len", ln-from+2)))
			}
		} else if ln > 0 {
			n.Args[1] = lit(val.I(g.pick("idx", ln+1)))
		}
	}
	// arity perturbation
	switch g.pick("arity", 30) {
	case 0:
		if len(n.Args) > 0 {
			n.Args = n.Args[:len(n.Args)-1]
		}
	case 1:
		n.Args = append(n.Args, lit(g.anyV(1)))
	}
	return n
}

func (g *cg) produce(kind string, d int) Node {
	ps := producers[kind]
	if len(ps) == 0 {
		return lit(g.anyV(2))
	}
	return g.call(ps[g.pick("producer", len(ps))], d)
}

func genCase(t *rapid.T) Case {
	g := &cg{t: t}
	fn := builtinNames[gen.Uniform(t, "builtin", len(builtinNames))]
	return Case{Expr: g.call(fn, gen.Uniform(t, "depth", 4))}
}

// evalModel evaluates the expression with the model. Arguments are evaluated left to
// right; the first O (error) or U wins.
func evalModel(n Node) R {
	if n.Lit != nil {
		return D(*n.Lit)
	}
	if n.Ref != "" {
		return D(val.V{K: val.Fn})
	}
	args := make([]val.V, len(n.Args))
	bags := make([]bool, len(n.Args))
	var fnArg *Fn
	builtinFn := ""
	for i, a := range n.Args {
		r := evalModel(a)
		if r.Zone != "D" {
			return r
		}
		args[i], bags[i] = r.V, r.Bag
		if a.Ref != "" && fnArg == nil && builtinFn == "" {
			// function position: map/apply first argument, update/update-in third, fn? first
			pos := map[string]int{"map": 0, "apply": 0, "update": 2, "update-in": 2, "fn?": 0}
			if p, ok := pos[n.Fn]; ok && p == i {
				if strings.HasPrefix(a.Ref, "f:") {
					f := fnCatalog[a.Ref[2:]]
					fnArg = &f
				} else {
					builtinFn = a.Ref[2:]
				}
			}
		}
	}
	// a function value in a data position: kinds still matter (a function is not a collection)
	return model(n.Fn, args, bags, fnArg, builtinFn)
}

func bagEq(a, b val.V) bool {
	if a.K != b.K || len(a.L) != len(b.L) {
		return false
	}
	ca := make([]string, len(a.L))
	cb := make([]string, len(b.L))
	for i := range a.L {
		ca[i], cb[i] = val.Canon(a.L[i]), val.Canon(b.L[i])
	}
	sort.Strings(ca)
	sort.Strings(cb)
	for i := range ca {
		if ca[i] != cb[i] {
			return false
		}
	}
	return true
}

func hasFn(n Node) bool {
	if n.Ref != "" {
		return true
	}
	for _, a := range n.Args {
		if hasFn(a) {
			return true
		}
	}
	return false
}

func boundary(n Node) bool {
	if n.Lit != nil {
		switch n.Lit.K {
		case val.Nil:
			return true
		case val.List, val.Vec:
			return len(n.Lit.L) <= 1
		case val.Map:
			return len(n.Lit.M) <= 1
		case val.Set:
			return len(n.Lit.St) <= 1
		case val.Int:
			return n.Lit.I <= 0
		}
		return false
	}
	for _, a := range n.Args {
		if boundary(a) {
			return true
		}
	}
	return false
}

func check(c Case) pbt.Verdict {
	box.Silence()
	text := c.Expr.Text()
	want := evalModel(c.Expr)
	v := pbt.Verdict{Key: text, Labels: []string{"zone:" + want.Zone, "builtin:" + c.Expr.Fn + ":" + want.Zone}}
	if want.Zone == "U" {
		v.Excluded = "unspecified"
		v.Labels = append(v.Labels, "unspecified:"+want.Why)
		return v
	}
	e := box.CoreEnv()
	ctx, cancel := context.WithTimeout(context.Background(), 10*time.Second)
	defer cancel()
	// the arguments are evaluated first and bound to globals, so that they can be inspected again
	// after the call: builtins are pure functions
	callText := "(" + c.Expr.Fn
	snaps := []val.V{}
	argsOK := true
	for i, a := range c.Expr.Args {
		ar := box.ReadEval(ctx, a.Text(), e)
		if ar.Panicked || ar.Err != nil {
			argsOK = false
			break
		}
		name := fmt.Sprintf("verif-arg%d", i)
		e.Set(types.Symbol{Val: name}, ar.Val)
		snaps = append(snaps, val.From(ar.Val))
		callText += " " + name
	}
	callText += ")"
	if !argsOK {
		callText = text // an argument fails: evaluate the whole expression (the error must surface)
		snaps = nil
	}
	r := box.ReadEval(ctx, callText, e)
	for i, s := range snaps {
		cur, _ := box.Lookup(e, fmt.Sprintf("verif-arg%d", i))
		if now := val.From(cur); !val.Eq(now, s) {
			return pbt.Failf("argument-mutated:"+c.Expr.Fn, "%s changed its argument #%d from %s to %s", text, i, val.Canon(s), val.Canon(now))
		}
	}
	if r.Panicked {
		return pbt.Failf("panic:"+r.PanicSite, "%s panicked: %v", text, r.PanicVal)
	}
	if want.Zone == "O" {
		if r.Err == nil {
			return pbt.Failf("value-outside-domain:"+c.Expr.Fn, "%s is outside the documented domain and must be an error, returned %s", text, val.Canon(val.From(r.Val)))
		}
	} else {
		if r.Err != nil {
			return pbt.Failf("error-inside-domain:"+c.Expr.Fn, "%s should be %s, returned error %v", text, val.Canon(want.V), r.Err)
		}
		got := val.From(r.Val)
		ok := val.Eq(got, want.V)
		if want.Bag {
			ok = bagEq(got, want.V)
		}
		if !ok {
			return pbt.Failf("wrong-value:"+c.Expr.Fn, "%s should be %s, returned %s", text, val.Canon(want.V), val.Canon(got))
		}
		// the value returned stays what it is when a sibling call is made on the same arguments (the same call
		// again and, where the arity allows it, with one more trailing argument)
		if argsOK {
			extra := map[string]string{"concat": " [:zz]", "conj": " :zz", "list": " :zz", "vector": " :zz", "assoc": " \"zz\" 1", "merge": " {\"zz\" 1}",
				"dissoc": " \"zz\"", "hash-map": " \"zz\" 1", "hash-set": " \"zz\"", "cons": ""}[c.Expr.Fn]
			sibs := []string{callText, strings.TrimSuffix(callText, ")") + extra + ")"}
			if repl, ok := map[string]string{"concat": "[:zz]", "conj": ":zz", "list": ":zz", "vector": ":zz", "hash-set": "\"zz\""}[c.Expr.Fn]; ok && len(c.Expr.Args) >= 2 {
				// … and with the last argument replaced by another one
				last := fmt.Sprintf(" verif-arg%d)", len(c.Expr.Args)-1)
				sibs = append(sibs, strings.TrimSuffix(callText, last)+" "+repl+")")
			}
			for _, sib := range sibs {
				sr := box.ReadEval(ctx, sib, e)
				if sr.Panicked {
					return pbt.Failf("panic:"+sr.PanicSite, "%s panicked: %v", sib, sr.PanicVal)
				}
				if now := val.From(r.Val); !val.Eq(now, got) {
					return pbt.Failf("result-changed-later:"+c.Expr.Fn, "%s returned %s; after the sibling call %s (arguments bound as in the first call) that same value reads %s", text, val.Canon(got), sib, val.Canon(now))
				}
			}
		}
	}
	v.NonTrivial = boundary(c.Expr) || c.Expr.depth() >= 2
	_ = fmt.Sprint
	return v
}

var P = pbt.Prop[Case]{
	ID:    "C13",
	Gen:   genCase,
	Check: check,
	Show:  func(c Case) any { return c.Expr.Text() },
}

func TestMain(m *testing.M)   { pbt.Main(m) }
func TestProp(t *testing.T)   { pbt.Run(t, P) }
func TestCorpus(t *testing.T) { pbt.Corpus(t, P) }
func TestReplay(t *testing.T) { pbt.Replay(t, P) }
