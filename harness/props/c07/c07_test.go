package c07

import (
	"context"
	"fmt"
	"os"
	"strconv"
	"strings"
	"testing"
	"time"

	"github.com/jig/lisp"
	"github.com/jig/lisp/lib/call"
	"github.com/jig/lisp/types"
	"pgregory.net/rapid"

	"verifharness/internal/box"
	"verifharness/internal/gen"
	"verifharness/internal/pbt"
	"verifharness/internal/val"
)

// Shape: a non-terminating kernel wrapped in try/catch/finally and other constructs.
type Shape struct {
	Kind    string // kernel try let do call if
	Kernel  string `json:",omitempty"`
	Catch   string `json:",omitempty"` // "", quick, sleep, loop
	Finally string `json:",omitempty"` // "", quick, sleep, loop
	Sub     *Shape `json:",omitempty"`
}

type Case struct {
	Shape  Shape
	Millis int  // deadline (or cancellation instant) in milliseconds
	Cancel bool // explicit cancel() at that instant instead of a deadline
	Far    bool // with Cancel: the context ALSO has a deadline, far away (6 s)
	GoAST  bool // evaluate the AST rebuilt from Go without positions
}

const defs = `(do
  (def spin (fn () (spin)))
  (def spin2 (fn (n) (if n (do 1 (spin2 n)) nil)))
  (def up (fn (n) (up (+ n 1))))
  (def ping (fn (x) (let [y x] (pong y))))
  (def pong (fn (x) (ping x)))
  (def deep (fn (n) (if (< n 1) (spin) (+ 1 (deep (- n 1))))))
  (def deep-up (fn (n) (if (< n 1) (up 0) (list (deep-up (- n 1))))))
  (defmacro forever (fn () '(forever)))
  (defmacro forever2 (fn (x) (list 'forever2 (list 'quote x))))
  (def cond-loop (fn (n) (cond (< n 0) 0 true (cond-loop (+ n 1)))))
  (def or-loop (fn (n) (or nil (or-loop n))))
  (def self-atom (atom nil))
  (do (reset! self-atom self-atom) nil)
  (def shared-atom (atom 0))
  (def other-atom (atom 0)))`

var kernels = map[string]string{
	"tail-loop-atoms-only":   "(spin)",
	"tail-loop-if-do":        "(spin2 1)",
	"tail-loop-counting":     "(up 0)",
	"mutual-tail-let":        "(ping 1)",
	"deep-then-spin":         "(deep 800)",
	"deep-then-count":        "(deep-up 300)",
	"macro-self-expanding":   "(forever)",
	"macro-self-expanding-2": "(forever2 a)",
	"cond-loop":              "(cond-loop 0)",
	"or-loop":                "(or-loop 1)",
	"sleep":                  "(sleep 100000)",
	"future-loop":            "@(future (spin))",
	"future-sleep":           "(deref (future (sleep 100000)))",
	"map-callback-loop":      "(map (fn (x) (up x)) [1 2])",
	"apply-loop":             "(apply spin [])",
	"swap-loop":              "(swap! (atom 1) (fn (x) (up x)))",
	"update-loop":            "(update {:a 1} :a (fn (x) (spin)))",
	"reduce-loop":            "(reduce (fn (a x) (up a)) 0 [1 2 3])",
	"earlier-future":         "@earlier-fut",
	"future-among-many":      "@(future (sleep 100000))",
	// a sleep that would end before the FAR deadline of the cancel-before-a-far-deadline mode (6 s)
	"sleep-shorter-than-far-deadline": "(do (sleep 4500) (sleep 100000))",
	// a future of an earlier evaluation is in the middle of a slow swap! of the same atom
	"swap-behind-slow-swap": "(do (swap! shared-atom (fn (x) (+ x 1))) (spin))",
	// the update function swaps the atom it is applied to: re-applied for ever
	"swap-self-nested": "(swap! shared-atom (fn (x) (swap! shared-atom (fn (y) (+ y 1)))))",
	// the evaluation and its own future swap two atoms in opposite order from inside their update functions
	"swap-crossed-with-future": "(let (f (future (swap! other-atom (fn (x) (do (sleep 30) (swap! shared-atom (fn (y) (+ y 1))) x))))) (do (swap! shared-atom (fn (y) (do (sleep 30) (swap! other-atom (fn (x) (+ x 1))) y))) (deref f) (spin)))",
	// the same with a builtin as the update function (nothing inside it looks at the context): the atom holds itself,
	// so (reset! <old value> self-atom) changes the atom being swapped and every attempt loses
	"swap-self-builtin":   "(swap! self-atom reset! self-atom)",
	"let-value-loop":      "(let (a (up 0)) a)",
	"argument-loop":       "(+ 1 (up 0))",
	"vector-literal-loop": "[1 (spin) 3]",
	"eval-loop":           "(eval '(spin))",
}

var kernelNames []string

func init() {
	for k := range kernels {
		kernelNames = append(kernelNames, k)
	}
	// deterministic order
	for i := 0; i < len(kernelNames); i++ {
		for j := i + 1; j < len(kernelNames); j++ {
			if kernelNames[j] < kernelNames[i] {
				kernelNames[i], kernelNames[j] = kernelNames[j], kernelNames[i]
			}
		}
	}
}

// "quick2": the same quick handler written as two forms (the first one is not in tail position)
var slowBody = map[string]string{"quick": "(do (trace! :h) :h)", "quick2": "(trace! :h) :h", "sleep": "(sleep 100000)", "loop": "(up 0)"}
var finBody = map[string]string{"quick": "(trace! :f)", "sleep": "(sleep 100000)", "loop": "(spin)"}

func (s Shape) Text() string {
	switch s.Kind {
	case "kernel":
		return kernels[s.Kernel]
	case "try":
		t := "(try " + s.Sub.Text()
		if s.Catch != "" {
			t += " (catch e " + slowBody[s.Catch] + ")"
		}
		if s.Finally != "" {
			t += " (finally " + finBody[s.Finally] + ")"
		}
		return t + ")"
	case "let":
		return "(let (a 1) " + s.Sub.Text() + ")"
	case "do":
		return "(do 1 " + s.Sub.Text() + ")"
	case "call":
		return "((fn () " + s.Sub.Text() + "))"
	case "if":
		return "(if true " + s.Sub.Text() + " 0)"
	case "future":
		// evaluated in a future the program waits for
		return "(deref (future " + s.Sub.Text() + "))"
	case "retry":
		// the retry idiom: the handler re-enters the function in tail position; the first attempt uses up 30% of
		// the time and throws, the second one is the long-running one, its handler is quick
		return "(do (def retry-fn (fn (n) (try (if (< n 1) (do (burn-30!) (throw :first-attempt)) " + s.Sub.Text() +
			") (catch e (if (< n 1) (retry-fn (+ n 1)) (do (trace! :h) :h)))))) (retry-fn 0))"
	}
	return "nil"
}

// outcome by abstract evaluation: "timeout" (must be an error) or "handler" (the value :h)
func (s Shape) outcome() string {
	switch s.Kind {
	case "kernel":
		return "timeout"
	case "try":
		in := s.Sub.outcome()
		if in == "timeout" && s.Catch != "" {
			if s.Catch == "quick" || s.Catch == "quick2" {
				return "handler"
			}
			return "timeout"
		}
		return in
	case "retry":
		return "handler"
	}
	return s.Sub.outcome()
}

// endsAtDeadline: the shape only comes to an end because the deadline (or the try budget of an ENCLOSING try)
// cuts it; false when a quick handler and at most a quick finally decide its outcome before that
func (s Shape) endsAtDeadline() bool {
	switch s.Kind {
	case "kernel":
		return true
	case "try":
		if s.Finally == "sleep" || s.Finally == "loop" {
			return true
		}
		if !s.Sub.endsAtDeadline() {
			return false
		}
		return !(s.Catch == "quick" || s.Catch == "quick2")
	case "retry":
		return false
	}
	return s.Sub.endsAtDeadline()
}

func (s Shape) depthTry() int {
	if s.Sub == nil {
		return 0
	}
	d := s.Sub.depthTry()
	if s.Kind == "try" {
		d++
	}
	return d
}

func (s Shape) nontrivial() bool {
	if s.Kind == "try" && (s.Catch == "sleep" || s.Catch == "loop" || s.Finally == "sleep" || s.Finally == "loop") {
		return true
	}
	if s.Kind == "kernel" {
		return strings.Contains(s.Kernel, "future") || strings.Contains(s.Kernel, "callback") || strings.Contains(s.Kernel, "-loop")
	}
	return s.Sub.nontrivial()
}

func (s Shape) kernel() string {
	if s.Kind == "kernel" {
		return s.Kernel
	}
	return s.Sub.kernel()
}

func genShape(t *rapid.T, d int) Shape {
	if d <= 0 || gen.Uniform(t, "leaf", 3) == 0 {
		return Shape{Kind: "kernel", Kernel: kernelNames[gen.Uniform(t, "kernel", len(kernelNames))]}
	}
	sub := genShape(t, d-1)
	switch gen.Uniform(t, "wrap", 8) {
	case 0, 1, 2, 3:
		s := Shape{Kind: "try", Sub: &sub}
		switch gen.Uniform(t, "tryshape", 3) {
		case 0:
			s.Catch = []string{"quick", "quick2", "sleep", "loop"}[gen.Uniform(t, "catch", 4)]
		case 1:
			s.Finally = []string{"quick", "sleep", "loop"}[gen.Uniform(t, "fin", 3)]
		default:
			s.Catch = []string{"quick", "quick2", "sleep", "loop"}[gen.Uniform(t, "catch", 4)]
			s.Finally = []string{"quick", "sleep", "loop"}[gen.Uniform(t, "fin", 3)]
		}
		return s
	case 4:
		return Shape{Kind: "let", Sub: &sub}
	case 5:
		return Shape{Kind: "do", Sub: &sub}
	case 6:
		return Shape{Kind: "call", Sub: &sub}
	}
	if gen.Uniform(t, "infuture", 3) == 0 && !sub.endsAtDeadline() {
		// (a future that only ends with the deadline races with the deref that waits for it: not judged)
		return Shape{Kind: "future", Sub: &sub}
	}
	if sub.outcome() == "timeout" && gen.Uniform(t, "retry", 2) == 0 {
		return Shape{Kind: "retry", Sub: &sub}
	}
	return Shape{Kind: "if", Sub: &sub}
}

func genCase(t *rapid.T) Case {
	c := Case{Shape: genShape(t, 4)}
	c.Millis = []int{20, 50, 100, 200, 400}[gen.Uniform(t, "ms", 5)]
	c.Cancel = gen.Uniform(t, "cancel", 3) == 0
	c.Far = c.Cancel && gen.Uniform(t, "far", 2) == 0
	c.GoAST = gen.Uniform(t, "goast", 4) == 0
	if c.Shape.outcome() == "handler" && !c.Cancel {
		// the handler's 20% share must be comfortably large
		c.Millis = 1000
	}
	return c
}

type result struct {
	r       box.Result
	elapsed time.Duration
	hung    bool
	trace   []val.V
}

func runOnce(c Case, millis int) result {
	e := box.FullEnv()
	tr := box.AddTrace(e)
	bg := context.Background()
	// burn-30!: sleeps 30% of what is left until the deadline of the evaluation it is called in (nothing without one)
	call.CallOverrideFN(e, "burn-30!", func(ctx context.Context) (types.MalType, error) {
		if dl, ok := ctx.Deadline(); ok {
			select {
			case <-time.After(time.Until(dl) * 3 / 10):
			case <-ctx.Done():
				return nil, ctx.Err()
			}
		}
		return nil, nil
	})
	if r := box.ReadEval(bg, defs, e); r.Err != nil || r.Panicked {
		panic(fmt.Sprintf("defs: %v %v", r.Err, r.PanicVal))
	}
	// the embedder's set-up code has used the context-taking builtins before, under a context that never ends
	if r := box.ReadEval(bg, "(do (sleep 1) (map (fn (x) x) [1]) (apply + [1 2]) (deref (atom 1)) (swap! (atom 1) + 1) (update {:a 1} :a (fn (x) x)) (reduce + 0 [1]) (deref (future 1)) (eval 1))", e); r.Err != nil || r.Panicked {
		panic(fmt.Sprintf("set-up: %v %v", r.Err, r.PanicVal))
	}
	// a future created by an EARLIER evaluation under a context that stays alive
	if c.Shape.kernel() == "earlier-future" {
		if r := box.ReadEval(bg, "(def earlier-fut (future (do (sleep 2500) :late)))", e); r.Err != nil {
			panic(r.Err)
		}
	}
	if c.Shape.kernel() == "swap-behind-slow-swap" {
		if r := box.ReadEval(bg, "(def slow-swapper (future (swap! shared-atom (fn (x) (do (sleep 8000) x)))))", e); r.Err != nil {
			panic(r.Err)
		}
		time.Sleep(20 * time.Millisecond) // let the update function start
	}
	// forty futures of an EARLIER evaluation are still running (under a context of their own) when the program starts one more
	if c.Shape.kernel() == "future-among-many" {
		started := make(chan struct{})
		go func() {
			defer close(started)
			box.ReadEval(bg, "(def earlier-many (map (fn (i) (future (sleep 6000))) (range 0 40)))", e)
		}()
		select {
		case <-started:
		case <-time.After(300 * time.Millisecond): // (if starting futures can block, the program under test will show it)
		}
	}
	ast, err := lisp.READ(c.Shape.Text(), types.NewCursorFile("c07"), e)
	if err != nil {
		panic(fmt.Sprintf("READ %s: %v", c.Shape.Text(), err))
	}
	if c.GoAST {
		ast = val.To(val.From(ast))
	}
	d := time.Duration(millis) * time.Millisecond
	var ctx context.Context
	var cancel context.CancelFunc
	if c.Cancel {
		if c.Far {
			ctx, cancel = context.WithTimeout(bg, 6*time.Second)
		} else {
			ctx, cancel = context.WithCancel(bg)
		}
		timer := time.AfterFunc(d, cancel)
		defer timer.Stop()
	} else {
		ctx, cancel = context.WithTimeout(bg, d)
	}
	defer cancel()
	bound := 10 * d
	if bound < 1500*time.Millisecond {
		bound = 1500 * time.Millisecond
	}
	done := make(chan box.Result, 1)
	start := time.Now()
	go func() { done <- box.Eval(ctx, ast, e) }()
	select {
	case r := <-done:
		return result{r: r, elapsed: time.Since(start), trace: tr.Snapshot()}
	case <-time.After(d + bound):
		return result{hung: true, elapsed: time.Since(start)}
	}
}

func judge(c Case, res result, millis int) (sig, msg string) {
	text := c.Shape.Text()
	mode := fmt.Sprintf("deadline %d ms", millis)
	if c.Cancel {
		mode = fmt.Sprintf("cancel() after %d ms", millis)
		if c.Far {
			mode += " (the context also has a 6 s deadline)"
		}
	}
	if res.hung {
		return "does-not-return:" + c.Shape.kernel(), fmt.Sprintf("%s with %s: EVAL still running %v after the start (bound: deadline + max(1.5 s, 10 x deadline))", text, mode, res.elapsed.Round(time.Millisecond))
	}
	if res.r.Panicked {
		return "panic:" + res.r.PanicSite, fmt.Sprintf("%s with %s panicked: %v", text, mode, res.r.PanicVal)
	}
	want := c.Shape.outcome()
	if want == "timeout" {
		if res.r.Err == nil {
			return "value-instead-of-timeout-error:" + c.Shape.kernel(), fmt.Sprintf("%s with %s returned the value %s after %v instead of an error", text, mode, val.Canon(val.From(res.r.Val)), res.elapsed.Round(time.Millisecond))
		}
		return "", ""
	}
	// a quick handler encloses the timeout: with a deadline it must get to run and give the value
	if c.Cancel {
		return "", "" // after cancel() nothing may run any more: error or value, both allowed
	}
	if res.r.Err != nil {
		return "handler-did-not-run", fmt.Sprintf("%s with %s: the timeout raised in the try body was not handled by the quick handler: %v", text, mode, res.r.Err)
	}
	if got := val.From(res.r.Val); !val.Eq(got, val.K("h")) {
		return "handler-value-lost", fmt.Sprintf("%s with %s returned %s, the handler's value is :h", text, mode, val.Canon(got))
	}
	sawH := false
	for _, t := range res.trace {
		if val.Eq(t, val.K("h")) {
			sawH = true
		}
	}
	if !sawH {
		return "handler-did-not-run", fmt.Sprintf("%s with %s: value :h returned but the handler's effect is missing", text, mode)
	}
	return "", ""
}

func check(c Case) pbt.Verdict {
	box.Silence()
	if c.Millis <= 0 {
		c.Millis = 100
	}
	res := runOnce(c, c.Millis)
	sig, msg := judge(c, res, c.Millis)
	if sig != "" && !strings.HasPrefix(sig, "panic:") {
		// timing-related verdicts are only believed when they reproduce with a generous deadline
		for i := 0; i < 2 && sig != ""; i++ {
			ms := c.Millis
			if strings.HasPrefix(sig, "handler") {
				ms = 3000
			}
			res = runOnce(c, ms)
			sig, msg = judge(c, res, ms)
		}
	}
	if sig != "" {
		return pbt.Failf(sig, "%s", msg)
	}
	v := pbt.Verdict{Key: fmt.Sprintf("%s|%d|%v|%v|%v", c.Shape.Text(), c.Millis/100, c.Cancel, c.Far, c.GoAST)}
	v.Labels = append(v.Labels, "kernel:"+c.Shape.kernel(), "expect:"+c.Shape.outcome())
	if res.r.Err != nil {
		s := strings.ToLower(res.r.Err.Error())
		if strings.Contains(s, "timeout") || strings.Contains(s, "deadline") || strings.Contains(s, "cancel") {
			v.Labels = append(v.Labels, "error-classifies-as-timeout")
		} else {
			v.Labels = append(v.Labels, "error-other-text")
		}
	}
	over := res.elapsed - time.Duration(c.Millis)*time.Millisecond
	switch {
	case over < 20*time.Millisecond:
		v.Labels = append(v.Labels, "overrun:<20ms")
	case over < 200*time.Millisecond:
		v.Labels = append(v.Labels, "overrun:<200ms")
	default:
		v.Labels = append(v.Labels, "overrun:>=200ms")
	}
	v.NonTrivial = c.Shape.nontrivial()
	return v
}

var P = pbt.Prop[Case]{
	ID:          "C07",
	Gen:         genCase,
	Check:       check,
	ReplayTries: 25,
	Show: func(c Case) any {
		return map[string]any{"program": c.Shape.Text(), "millis": c.Millis, "cancel": c.Cancel, "expect": c.Shape.outcome()}
	},
}

func TestMain(m *testing.M)   { pbt.Main(m) }
func TestProp(t *testing.T)   { pbt.Run(t, P) }
func TestCorpus(t *testing.T) { pbt.Corpus(t, P) }
func TestReplay(t *testing.T) { pbt.Replay(t, P) }

// TestEachKernel: every kernel bare and inside each try form, deadline and cancel (enumerated completely).
func TestEachKernel(t *testing.T) {
	shard, _ := strconv.Atoi(os.Getenv("VERIF_SHARD"))
	shards, _ := strconv.Atoi(os.Getenv("VERIF_SHARDS"))
	if shards <= 0 {
		shards = 1
	}
	n := 0
	for ki, k := range kernelNames {
		if ki%shards != shard {
			continue
		}
		base := Shape{Kind: "kernel", Kernel: k}
		shapes := []Shape{base,
			{Kind: "try", Sub: &base, Catch: "quick"},
			{Kind: "try", Sub: &base, Catch: "quick2", Finally: "quick"},
			{Kind: "try", Sub: &base, Finally: "loop"},
			{Kind: "try", Sub: &base, Catch: "loop", Finally: "quick"},
		}
		quickTry := Shape{Kind: "try", Sub: &base, Catch: "quick"}
		shapes = append(shapes, Shape{Kind: "future", Sub: &quickTry}, Shape{Kind: "retry", Sub: &base})
		for i, s := range shapes {
			for mode := 0; mode < 3; mode++ {
				cancel := mode > 0
				ms := 60
				if s.outcome() == "handler" && !cancel {
					ms = 1000
				}
				n++
				if !pbt.RunOne(t, P, Case{Shape: s, Millis: ms, Cancel: cancel, Far: mode == 2, GoAST: i%2 == 1}) {
					return
				}
			}
		}
	}
	pbt.Exhaustive("every kernel x {bare, try+quick handler, try+two-form quick handler+finally, try+looping finally, try+looping handler+finally, try+quick handler inside a future, retry idiom} x {deadline, cancel, cancel before a far deadline}", n)
}
