package c18

import (
	"context"
	"fmt"
	"regexp"
	"strings"
	"testing"
	"time"

	"github.com/jig/lisp"
	"github.com/jig/lisp/debuggertypes"
	"github.com/jig/lisp/types"
	"pgregory.net/rapid"

	"verifharness/internal/box"
	"verifharness/internal/gen"
	"verifharness/internal/pbt"
	"verifharness/internal/refmal"
	"verifharness/internal/val"
)

// Case: a program and the infinite command word the stepper callback answers with
// (Prefix, then Cycle repeated). 0 NoOp, 1 Next, 2 Out, 3 In (debuggertypes order).
type Case struct {
	Forms  []val.V
	Src    string `json:",omitempty"`
	Prefix []int
	Cycle  []int
	Uses   []string
	// Repeat > 1: a session - the program's forms (read once) are evaluated Repeat times in the same
	// environment, the command script going on across the repetitions
	Repeat int `json:",omitempty"`
}

func (c Case) Text() string {
	ls := make([]string, len(c.Forms))
	for i, f := range c.Forms {
		ls[i] = val.Literal(f)
	}
	return strings.Join(ls, "\n")
}

var candidates = []string{"z", "m", "a", "b", "c", "x", "y", "n", "f", "k", "e", "err", "more", "r", "acc", "go", "v", "zz", "zz-unbound", "tmp"}

var cmdGen = rapid.SampledFrom([]int{0, 0, 0, 3, 3, 1, 1, 2, 2})

func genCase(t *rapid.T) Case {
	p := gen.Program(t, gen.PFlags{Cond: true, Try: true, QQ: true, Macros: true, Budget: 40, MaxRec: 4, Malformed: true})
	c := Case{Forms: p.Forms}
	for u := range p.Uses {
		c.Uses = append(c.Uses, u)
	}
	switch rapid.IntRange(0, 5).Draw(t, "scriptkind") {
	case 0: // every evaluation is consulted
		c.Cycle = []int{0}
	case 1:
		c.Prefix = rapid.SliceOfN(rapid.SampledFrom([]int{0, 3}), 0, 10).Draw(t, "prefix")
		c.Cycle = []int{3}
	default:
		c.Prefix = rapid.SliceOfN(cmdGen, 0, 30).Draw(t, "prefix")
		c.Cycle = rapid.SliceOfN(cmdGen, 1, 6).Draw(t, "cycle")
	}
	if gen.Chance(t, "session", 25) {
		c.Repeat = []int{2, 20, 300, 4000}[gen.Uniform(t, "sessionlen", 4)]
	}
	return c
}

var coreNames = map[string]bool{}
var shortName = regexp.MustCompile(`^[a-z][a-z0-9]{0,3}$`)

func initCoreNames() {
	if len(coreNames) > 0 {
		return
	}
	e := box.CoreEnv()
	for _, rs := range e.Symbols(nil, "") {
		coreNames[string(rs)] = true
	}
	coreNames["xs"] = true // parameter of the cond macro
	coreNames["eval"] = true
}

// programVar: names the generators use for program variables, disjoint from builtins
// and from the parameter names of library code.
func programVar(n string) bool { return shortName.MatchString(n) && !coreNames[n] }

type seen struct {
	name    string
	v       val.V
	unbound bool
}

type runOut struct {
	r     box.Result // first pass
	trace []val.V    // effects of the first pass
	env   types.EnvType
	last  box.Result // last pass of a session
	all   []val.V    // effects of the whole session (sessions keep only the last 64)
	diffs string
}

func run(ctx context.Context, c Case, afterFirst func()) runOut {
	e := box.CoreEnv()
	tr := box.AddTrace(e)
	asts := make([]types.MalType, len(c.Forms))
	for i, f := range c.Forms {
		ast, err := lisp.READ(val.Literal(f), nil, e)
		if err != nil {
			return runOut{r: box.Result{Err: err}, last: box.Result{Err: err}, env: e}
		}
		asts[i] = ast
	}
	pass := func() box.Result {
		var r box.Result
		for _, ast := range asts {
			r = box.Eval(ctx, ast, e)
			if r.Panicked || r.Err != nil {
				break
			}
		}
		return r
	}
	out := runOut{env: e}
	out.r = pass()
	out.trace = tr.Snapshot()
	out.last = out.r
	if afterFirst != nil {
		afterFirst()
	}
	for k := 1; k < c.Repeat && !out.last.Panicked; k++ {
		tr.Reset()
		out.last = pass()
	}
	out.all = tr.Snapshot()
	return out
}

func check(c Case) pbt.Verdict {
	box.Silence()
	initCoreNames()
	if len(c.Forms) == 0 && c.Src != "" {
		c.Forms = box.ParseForms(c.Src)
	}
	if len(c.Cycle) == 0 {
		c.Cycle = []int{0}
	}
	in := refmal.New()
	in.LogVar = programVar
	o := in.Run(c.Forms)
	// where the reference interpreter leaves the outcome open (malformed special forms …) the stepped
	// run is still compared with the plain run, which is what the property is about
	relative, why := false, o.Aborted
	if o.Aborted != "" {
		if !strings.HasPrefix(o.Aborted, "unspecified") {
			return pbt.Verdict{Excluded: "model-" + strings.SplitN(o.Aborted, ":", 2)[0], Labels: []string{"excluded:" + o.Aborted}}
		}
		relative = true
	}
	budget := 20 * time.Second
	if relative {
		// not screened for termination by the reference interpreter: a program that runs long is not compared
		budget = 300 * time.Millisecond // (a non-tail recursion grows the Go stack by ~0.5 GB/s; the stack limit of 1 GB is fatal)
		if c.Repeat > 20 {
			c.Repeat = 20
		}
	}
	ctx, cancel := context.WithTimeout(context.Background(), budget)
	defer cancel()

	// run A: no stepper
	lisp.Stepper = nil
	lisp.VerifResetStepper()
	started := time.Now()
	a := run(ctx, c, nil)
	if relative && (time.Since(started) > 50*time.Millisecond /* deep but finite recursions must stay far from the stack limit on every route */ || (a.r.Err != nil && strings.Contains(a.r.Err.Error(), "timeout"))) {
		return pbt.Verdict{Excluded: "model-unspecified-and-long-running", Labels: []string{"excluded:" + why + " (long running)"}}
	}
	ctx2, cancel2 := context.WithTimeout(context.Background(), 20*time.Second)
	defer cancel2()
	ctx = ctx2
	if a.r.Panicked {
		return pbt.Failf("panic:"+a.r.PanicSite, "plain run panicked: %v\nprogram:\n%s", a.r.PanicVal, c.Text())
	}
	if relative {
		o = box.OutcomeOf(a.r)
	}
	if sig, msg := box.CompareOutcome(o, a.r); sig != "" {
		return pbt.Verdict{Excluded: "plain-run-disagrees-with-model", Labels: []string{"plain-run-disagrees:" + sig + ":" + msg[:min(60, len(msg))]}}
	}

	// run B: stepper installed, answering with the script
	var log []seen
	consulted := 0
	idx := 0
	next := func() debuggertypes.Command {
		var cmd int
		if idx < len(c.Prefix) {
			cmd = c.Prefix[idx]
		} else {
			cmd = c.Cycle[(idx-len(c.Prefix))%len(c.Cycle)]
		}
		idx++
		return debuggertypes.Command(cmd)
	}
	lisp.Stepper = func(ast types.MalType, ns types.EnvType) debuggertypes.Command {
		consulted++
		if s, ok := ast.(types.Symbol); ok && programVar(s.Val) {
			if ns.Find(s) == nil {
				log = append(log, seen{name: s.Val, unbound: true})
			} else if v, err := ns.Get(s); err == nil {
				log = append(log, seen{name: s.Val, v: val.From(v)})
			} else {
				log = append(log, seen{name: s.Val, unbound: true})
			}
		}
		return next()
	}
	firstPass := -1
	b := run(ctx, c, func() { firstPass = len(log) })
	if firstPass >= 0 {
		log = log[:firstPass] // the definition's variable evaluations are known for the first pass only
	}
	lisp.Stepper = nil
	lisp.VerifResetStepper()

	prog := "\nprogram:\n" + c.Text() + fmt.Sprintf("\nscript: prefix=%v cycle=%v", c.Prefix, c.Cycle)
	if b.r.Panicked {
		return pbt.Failf("panic:"+b.r.PanicSite, "stepped run panicked: %v%s", b.r.PanicVal, prog)
	}
	if sig, msg := box.CompareOutcome(o, b.r); sig != "" {
		return pbt.Failf("stepped:"+sig, "with the stepper installed: %s%s", msg, prog)
	}
	if d := box.CompareTrace(a.trace, b.trace); d != "" {
		return pbt.Failf("stepped:effects-differ", "plain run vs stepped run: %s%s", d, prog)
	}
	if sig, msg := box.CompareResults(a.r, b.r, true); sig != "" {
		return pbt.Failf("stepped:"+sig, "plain run vs stepped run: %s%s", msg, prog)
	}
	if c.Repeat > 1 {
		if sig, msg := box.CompareResults(a.last, b.last, true); sig != "" {
			return pbt.Failf("stepped:session:"+sig, "pass %d of a session in one environment, plain vs stepped: %s%s", c.Repeat, msg, prog)
		}
		if d := box.CompareTrace(a.all, b.all); d != "" {
			return pbt.Failf("stepped:session:effects-differ", "pass %d of a session in one environment, plain vs stepped: %s%s", c.Repeat, d, prog)
		}
	}
	if !relative {
		if d := box.CompareTrace(in.Trace, b.trace); d != "" {
			return pbt.Failf("stepped:effects-differ-from-definition", "%s%s", d, prog)
		}
		if d := box.CompareGlobals(in, b.env, candidates); d != "" {
			return pbt.Failf("stepped:globals-differ", "%s%s", d, prog)
		}
	}
	// scope check: the (variable, value-in-the-scope-handed-over) pairs are an in-order
	// subsequence of the definition's variable evaluations; equal when nothing is skipped
	all := true
	for _, x := range append(append([]int{}, c.Prefix...), c.Cycle...) {
		if x == 1 || x == 2 {
			all = false
		}
	}
	if relative {
		log = nil // the definition's variable evaluations are not known
	}
	j := 0
	for i, s := range log {
		found := false
		for j < len(in.Lookups) {
			l := in.Lookups[j]
			j++
			if l.Name == s.name && l.Unbound == s.unbound && (s.unbound || val.Eq(l.Val, s.v)) {
				found = true
				break
			}
		}
		if !found {
			return pbt.Failf("stepped:wrong-scope-handed-to-callback", "callback consultation #%d: symbol %s seen as %s in the scope handed over; not matched in order by the definition's variable evaluations (%s)%s",
				i, s.name, describe(s), describeLookups(in.Lookups), prog)
		}
	}
	// how often the callback is consulted is not part of the property (the tail form of a
	// catch handler, for instance, is evaluated by the loop without a consultation)
	v := pbt.Verdict{Key: c.Text() + fmt.Sprint(c.Prefix, c.Cycle, c.Repeat)}
	hasNext, hasOut := false, false
	for _, x := range append(append([]int{}, c.Prefix...), c.Cycle...) {
		hasNext = hasNext || x == 1
		hasOut = hasOut || x == 2
	}
	prg := false
	for _, u := range c.Uses {
		v.Labels = append(v.Labels, "uses:"+u)
		if u == "try" || u == "closure-call" || u == "closure-capture" {
			prg = true
		}
	}
	if all {
		v.Labels = append(v.Labels, "script:no-skipping")
		if len(log) == len(in.Lookups) {
			v.Labels = append(v.Labels, "script:no-skipping:every-variable-evaluation-consulted")
		}
	}
	if consulted > 0 {
		v.Labels = append(v.Labels, "callback-consulted")
	}
	if relative {
		v.Labels = append(v.Labels, "relative:"+why)
	}
	if c.Repeat > 1 {
		v.Labels = append(v.Labels, fmt.Sprintf("session:%d", c.Repeat))
	}
	v.NonTrivial = hasNext && hasOut && prg && (len(log) > 0 || relative)
	return v
}

func describe(s seen) string {
	if s.unbound {
		return "<unbound>"
	}
	return val.Canon(s.v)
}

func describeLookups(ls []refmal.Lookup) string {
	var sb strings.Builder
	for i, l := range ls {
		if i > 30 {
			sb.WriteString(" …")
			break
		}
		if l.Unbound {
			sb.WriteString(" " + l.Name + "=<unbound>")
		} else {
			sb.WriteString(" " + l.Name + "=" + val.Canon(l.Val))
		}
	}
	return sb.String()
}

var P = pbt.Prop[Case]{
	ID:    "C18",
	Gen:   genCase,
	Check: check,
	Show: func(c Case) any {
		return map[string]any{"program": c.Text(), "prefix": c.Prefix, "cycle": c.Cycle}
	},
}

func TestMain(m *testing.M)   { pbt.Main(m) }
func TestProp(t *testing.T)   { pbt.Run(t, P) }
func TestCorpus(t *testing.T) { pbt.Corpus(t, P) }
func TestReplay(t *testing.T) { pbt.Replay(t, P) }
