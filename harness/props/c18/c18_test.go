package c18

import (
	"context"
	"fmt"
	"regexp"
	"strings"
	"testing"
	"time"

	"github.com/jig/lisp"
	"github.com/jig/lisp/debuggertypes"
	"github.com/jig/lisp/types"
	"pgregory.net/rapid"

	"verifharness/internal/box"
	"verifharness/internal/gen"
	"verifharness/internal/pbt"
	"verifharness/internal/refmal"
	"verifharness/internal/val"
)

// Case: a program and the infinite command word the stepper callback answers with
// (Prefix, then Cycle repeated). 0 NoOp, 1 Next, 2 Out, 3 In (debuggertypes order).
type Case struct {
	Forms  []val.V
	Src    string `json:",omitempty"`
	Prefix []int
	Cycle  []int
	Uses   []string
}

func (c Case) Text() string {
	ls := make([]string, len(c.Forms))
	for i, f := range c.Forms {
		ls[i] = val.Literal(f)
	}
	return strings.Join(ls, "\n")
}

var candidates = []string{"z", "m", "a", "b", "c", "x", "y", "n", "f", "k", "e", "err", "more", "r", "acc", "go", "v", "zz", "zz-unbound", "tmp"}

var cmdGen = rapid.SampledFrom([]int{0, 0, 0, 3, 3, 1, 1, 2, 2})

func genCase(t *rapid.T) Case {
	p := gen.Program(t, gen.PFlags{Cond: true, Try: true, QQ: true, Macros: true, Budget: 40, MaxRec: 4})
	c := Case{Forms: p.Forms}
	for u := range p.Uses {
		c.Uses = append(c.Uses, u)
	}
	switch rapid.IntRange(0, 5).Draw(t, "scriptkind") {
	case 0: // every evaluation is consulted
		c.Cycle = []int{0}
	case 1:
		c.Prefix = rapid.SliceOfN(rapid.SampledFrom([]int{0, 3}), 0, 10).Draw(t, "prefix")
		c.Cycle = []int{3}
	default:
		c.Prefix = rapid.SliceOfN(cmdGen, 0, 30).Draw(t, "prefix")
		c.Cycle = rapid.SliceOfN(cmdGen, 1, 6).Draw(t, "cycle")
	}
	return c
}

var coreNames = map[string]bool{}
var shortName = regexp.MustCompile(`^[a-z][a-z0-9]{0,3}$`)

func initCoreNames() {
	if len(coreNames) > 0 {
		return
	}
	e := box.CoreEnv()
	for _, rs := range e.Symbols(nil, "") {
		coreNames[string(rs)] = true
	}
	coreNames["xs"] = true // parameter of the cond macro
	coreNames["eval"] = true
}

// programVar: names the generators use for program variables, disjoint from builtins
// and from the parameter names of library code.
func programVar(n string) bool { return shortName.MatchString(n) && !coreNames[n] }

type seen struct {
	name    string
	v       val.V
	unbound bool
}

type runOut struct {
	r     box.Result
	trace []val.V
	env   types.EnvType
}

func run(ctx context.Context, c Case) runOut {
	e := box.CoreEnv()
	tr := box.AddTrace(e)
	var r box.Result
	for _, f := range c.Forms {
		src := val.Literal(f)
		r = box.Guard(func() (types.MalType, error) {
			ast, err := lisp.READ(src, nil, e)
			if err != nil {
				return nil, err
			}
			return lisp.EVAL(ctx, ast, e)
		})
		if r.Panicked || r.Err != nil {
			break
		}
	}
	return runOut{r: r, trace: tr.Snapshot(), env: e}
}

func check(c Case) pbt.Verdict {
	box.Silence()
	initCoreNames()
	if len(c.Forms) == 0 && c.Src != "" {
		c.Forms = box.ParseForms(c.Src)
	}
	if len(c.Cycle) == 0 {
		c.Cycle = []int{0}
	}
	in := refmal.New()
	in.LogVar = programVar
	o := in.Run(c.Forms)
	if o.Aborted != "" {
		return pbt.Verdict{Excluded: "model-" + strings.SplitN(o.Aborted, ":", 2)[0], Labels: []string{"excluded:" + o.Aborted}}
	}
	ctx, cancel := context.WithTimeout(context.Background(), 20*time.Second)
	defer cancel()

	// run A: no stepper
	lisp.Stepper = nil
	lisp.VerifResetStepper()
	a := run(ctx, c)
	if sig, msg := box.CompareOutcome(o, a.r); sig != "" {
		return pbt.Verdict{Excluded: "plain-run-disagrees-with-model", Labels: []string{"plain-run-disagrees:" + sig + ":" + msg[:min(60, len(msg))]}}
	}

	// run B: stepper installed, answering with the script
	var log []seen
	consulted := 0
	idx := 0
	next := func() debuggertypes.Command {
		var cmd int
		if idx < len(c.Prefix) {
			cmd = c.Prefix[idx]
		} else {
			cmd = c.Cycle[(idx-len(c.Prefix))%len(c.Cycle)]
		}
		idx++
		return debuggertypes.Command(cmd)
	}
	lisp.Stepper = func(ast types.MalType, ns types.EnvType) debuggertypes.Command {
		consulted++
		if s, ok := ast.(types.Symbol); ok && programVar(s.Val) {
			if ns.Find(s) == nil {
				log = append(log, seen{name: s.Val, unbound: true})
			} else if v, err := ns.Get(s); err == nil {
				log = append(log, seen{name: s.Val, v: val.From(v)})
			} else {
				log = append(log, seen{name: s.Val, unbound: true})
			}
		}
		return next()
	}
	b := run(ctx, c)
	lisp.Stepper = nil
	lisp.VerifResetStepper()

	prog := "\nprogram:\n" + c.Text() + fmt.Sprintf("\nscript: prefix=%v cycle=%v", c.Prefix, c.Cycle)
	if b.r.Panicked {
		return pbt.Failf("panic:"+b.r.PanicSite, "stepped run panicked: %v%s", b.r.PanicVal, prog)
	}
	if sig, msg := box.CompareOutcome(o, b.r); sig != "" {
		return pbt.Failf("stepped:"+sig, "with the stepper installed: %s%s", msg, prog)
	}
	if d := box.CompareTrace(a.trace, b.trace); d != "" {
		return pbt.Failf("stepped:effects-differ", "plain run vs stepped run: %s%s", d, prog)
	}
	if d := box.CompareTrace(in.Trace, b.trace); d != "" {
		return pbt.Failf("stepped:effects-differ-from-definition", "%s%s", d, prog)
	}
	if d := box.CompareGlobals(in, b.env, candidates); d != "" {
		return pbt.Failf("stepped:globals-differ", "%s%s", d, prog)
	}
	// scope check: the (variable, value-in-the-scope-handed-over) pairs are an in-order
	// subsequence of the definition's variable evaluations; equal when nothing is skipped
	all := true
	for _, x := range append(append([]int{}, c.Prefix...), c.Cycle...) {
		if x == 1 || x == 2 {
			all = false
		}
	}
	j := 0
	for i, s := range log {
		found := false
		for j < len(in.Lookups) {
			l := in.Lookups[j]
			j++
			if l.Name == s.name && l.Unbound == s.unbound && (s.unbound || val.Eq(l.Val, s.v)) {
				found = true
				break
			}
		}
		if !found {
			return pbt.Failf("stepped:wrong-scope-handed-to-callback", "callback consultation #%d: symbol %s seen as %s in the scope handed over; not matched in order by the definition's variable evaluations (%s)%s",
				i, s.name, describe(s), describeLookups(in.Lookups), prog)
		}
	}
	// how often the callback is consulted is not part of the property (the tail form of a
	// catch handler, for instance, is evaluated by the loop without a consultation)
	v := pbt.Verdict{Key: c.Text() + fmt.Sprint(c.Prefix, c.Cycle)}
	hasNext, hasOut := false, false
	for _, x := range append(append([]int{}, c.Prefix...), c.Cycle...) {
		hasNext = hasNext || x == 1
		hasOut = hasOut || x == 2
	}
	prg := false
	for _, u := range c.Uses {
		v.Labels = append(v.Labels, "uses:"+u)
		if u == "try" || u == "closure-call" || u == "closure-capture" {
			prg = true
		}
	}
	if all {
		v.Labels = append(v.Labels, "script:no-skipping")
		if len(log) == len(in.Lookups) {
			v.Labels = append(v.Labels, "script:no-skipping:every-variable-evaluation-consulted")
		}
	}
	if consulted > 0 {
		v.Labels = append(v.Labels, "callback-consulted")
	}
	v.NonTrivial = hasNext && hasOut && prg && len(log) > 0
	return v
}

func describe(s seen) string {
	if s.unbound {
		return "<unbound>"
	}
	return val.Canon(s.v)
}

func describeLookups(ls []refmal.Lookup) string {
	var sb strings.Builder
	for i, l := range ls {
		if i > 30 {
			sb.WriteString(" …")
			break
		}
		if l.Unbound {
			sb.WriteString(" " + l.Name + "=<unbound>")
		} else {
			sb.WriteString(" " + l.Name + "=" + val.Canon(l.Val))
		}
	}
	return sb.String()
}

var P = pbt.Prop[Case]{
	ID:    "C18",
	Gen:   genCase,
	Check: check,
	Show: func(c Case) any {
		return map[string]any{"program": c.Text(), "prefix": c.Prefix, "cycle": c.Cycle}
	},
}

func TestMain(m *testing.M)   { pbt.Main(m) }
func TestProp(t *testing.T)   { pbt.Run(t, P) }
func TestCorpus(t *testing.T) { pbt.Corpus(t, P) }
func TestReplay(t *testing.T) { pbt.Replay(t, P) }
