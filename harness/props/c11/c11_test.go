package c11

import (
	"context"
	"fmt"
	"os"
	"strings"
	"sync"
	"sync/atomic"
	"testing"
	"time"

	"github.com/jig/lisp"
	"github.com/jig/lisp/lib/call"
	"github.com/jig/lisp/types"
	"pgregory.net/rapid"

	"verifharness/internal/box"
	"verifharness/internal/gen"
	"verifharness/internal/pbt"
	"verifharness/internal/refmal"
	"verifharness/internal/val"
)

// Case: a set of programs (already renamed so that their global names are their own) that
// run simultaneously on one environment, each repeated Reps times.
type Case struct {
	Std    []bool        // program i is a hand-written standard-library user (not screened by the reference interpreter)
	Expect map[int]val.V `json:",omitempty"` // hand-written programs whose final value is known by construction
	Progs  [][]val.V
	Reps   int
	Writer bool // one more evaluation keeps re-defining a shared global to internally consistent values
}

func progText(p []val.V) string {
	ls := make([]string, len(p))
	for i, f := range p {
		ls[i] = val.Literal(f)
	}
	return strings.Join(ls, "\n")
}

func sym(s string) val.V   { return val.Y(s) }
func lst(a ...val.V) val.V { return val.V{K: val.List, L: a} }

// rename every occurrence of the given symbols
func rename(v val.V, m map[string]string) val.V {
	switch v.K {
	case val.Sym:
		if n, ok := m[v.S]; ok {
			return sym(n)
		}
		return v
	case val.List, val.Vec:
		out := val.V{K: v.K, L: make([]val.V, len(v.L))}
		for i, e := range v.L {
			out.L[i] = rename(e, m)
		}
		return out
	case val.Map:
		mm := map[string]val.V{}
		for k, e := range v.M {
			mm[k] = rename(e, m)
		}
		return val.M(mm)
	}
	return v
}

// privatise: top-level definitions get names of their own (tN_…), every other top-level form and
// every defined value is evaluated inside a private function scope, trace! becomes the program's own.
func privatise(forms []val.V, i int) []val.V {
	prefix := fmt.Sprintf("t%d_", i)
	m := map[string]string{"trace!": prefix + "trace!"}
	for _, f := range forms {
		if f.K == val.List && len(f.L) >= 2 && f.L[0].K == val.Sym && (f.L[0].S == "def" || f.L[0].S == "defmacro") && f.L[1].K == val.Sym {
			m[f.L[1].S] = prefix + f.L[1].S
		}
	}
	out := []val.V{}
	scope := func(x val.V) val.V { return lst(lst(sym("fn"), lst(), x)) }
	for _, f := range forms {
		f = rename(f, m)
		if f.K == val.List && len(f.L) == 3 && f.L[0].K == val.Sym && f.L[0].S == "def" {
			out = append(out, lst(sym("def"), f.L[1], scope(f.L[2])))
			continue
		}
		if f.K == val.List && len(f.L) >= 1 && f.L[0].K == val.Sym && f.L[0].S == "defmacro" {
			out = append(out, f)
			continue
		}
		out = append(out, scope(f))
	}
	return out
}

func stdlibUser(t *rapid.T, i int) []val.V {
	p := fmt.Sprintf("t%d_", i)
	k := val.I(gen.Uniform(t, "k", 20))
	src := []string{
		fmt.Sprintf("(def %smemo (memoize (fn (x) (do (%strace! x) (* x %d)))))", p, p, 2+i),
		fmt.Sprintf("(list (%smemo %s) (%smemo %s) (%smemo 3))", p, val.Literal(k), p, val.Literal(k), p),
		fmt.Sprintf("(let (a %d b (or nil false %d) c (and 1 %d)) (list a b c (cond (< a 0) :neg (= a %d) :same :else :other) (-> a (+ %d) (* 2)) (->> a (- 100))))", i, i, i, i, i),
		fmt.Sprintf("(let (s1 (gensym) s2 (gensym)) (= s1 s2))"),
		fmt.Sprintf("(reduce (fn (a x) (+ a x)) %d (map (fn (x) (+ x %d)) [1 2 3]))", i, i),
		fmt.Sprintf("(deref (future (let (a %d) (do (%strace! a) (+ a 1)))))", i, p),
		fmt.Sprintf("(try (throw {:who %d}) (catch e (get e :who)) (finally (%strace! :fin)))", i, p),
		fmt.Sprintf("(let (at (atom %d)) (do (swap! at + 1) (swap! at (fn (x) (* x 2))) @at))", i),
	}
	// a def inside a future body is local to that body: every program uses the SAME working name
	src = append(src, fmt.Sprintf("(deref (future (do (def scratch %d) (sleep 2) (list scratch (+ scratch 1)))))", 10*(i+1)),
		fmt.Sprintf("(let (fs (map (fn (j) (future (do (def scratch (+ %d j)) (sleep 1) scratch))) [1 2])) (map deref fs))", 100*(i+1)))
	// … and so is a def inside a let body, also of a let that binds nothing
	src = append(src, fmt.Sprintf("(let () (do (def scratch %d) (sleep 1) (list scratch (+ scratch 2))))", 1000*(i+1)),
		fmt.Sprintf("(let [] (do (def scratch (fn (x) (+ x %d))) (sleep 1) (scratch 1)))", 1000*(i+1)))
	// a memoized function is asked for the same argument by several futures while the first computation is still going on
	src = append(src, fmt.Sprintf("(def %sslow-sq (memoize (fn (x) (do (sleep 3) (* x x))))) (map deref (list (future (%sslow-sq 7)) (future (%sslow-sq 7)) (future (do (sleep 1) (%sslow-sq 7)))))", p, p, p, p),
		// a future started inside a nested let of a function body reads that function's parameter while the body goes on defining names
		fmt.Sprintf("(def %sbusy (fn (q) (do (def pending (let (w 1) (future (do (sleep 1) (+ q w (+ q w) (+ q w)))))) (def n1 1) (def n2 2) (def n3 3) (def n4 4) (def n5 5) (def n6 6) (+ n1 n2 n3 n4 n5 n6 (deref pending))))) (%sbusy %d)", p, p, i))
	n := 2 + gen.Uniform(t, "nstd", len(src)-1)
	forms := []val.V{}
	for j := 0; j < n; j++ {
		forms = append(forms, box.ParseForms(src[(j+i)%len(src)])...)
	}
	return forms
}

// spawnLoop: a self tail-recursive loop that starts one future per iteration; each future reads the
// loop parameter only after a short sleep, i.e. when the loop has long moved on
func spawnLoop(i int) ([]val.V, val.V) {
	p := fmt.Sprintf("t%d_", i)
	base := 10 * (i + 1)
	src := fmt.Sprintf("(def %sspawn (fn (k acc) (if (< k 4) (%sspawn (+ k 1) (cons (future (do (sleep 3) (+ %d k))) acc)) acc))) (map deref (%sspawn 0 (list)))", p, p, base, p)
	return box.ParseForms(src), val.L(val.I(base+3), val.I(base+2), val.I(base+1), val.I(base))
}

// spawnMap: functions called by builtins (map, apply, swap!) start futures, or return closures inside collections,
// that read the function's parameter after the call has returned
func spawnMap(i, kind int) ([]val.V, val.V) {
	p := fmt.Sprintf("t%d_", i)
	base := 100 * (i + 1)
	var src string
	switch kind % 3 {
	case 0:
		src = fmt.Sprintf("(map deref (map (fn (x) (future (do (sleep 3) (+ %d x)))) [1 2 3]))", base)
	case 1:
		src = fmt.Sprintf("(def %scells (map (fn (x) (list (fn () (+ %d x)))) [1 2 3])) (sleep 2) (map (fn (c) ((first c))) %scells)", p, base, p)
	default:
		src = fmt.Sprintf("(def %sat (atom (list))) (map (fn (x) (swap! %sat (fn (old y) (cons (future (do (sleep 3) (+ %d y))) old)) x)) [3 2 1]) (map deref (deref %sat))", p, p, base, p)
	}
	return box.ParseForms(src), val.L(val.I(base+1), val.I(base+2), val.I(base+3))
}

// manyFutures: k worker futures wait for a flag that only a future started after them raises
func manyFutures(i, k int) ([]val.V, val.V) {
	p := fmt.Sprintf("t%d_", i)
	src := fmt.Sprintf("(def %swait (fn (a) (if @a true (do (sleep 1) (%swait a))))) (def %sflag (atom false)) "+
		"(def %sws (map (fn (j) (future (do (%swait %sflag) j))) (range 0 %d))) (deref (future (reset! %sflag true))) (reduce + 0 (map deref %sws))", p, p, p, p, p, p, k, p, p)
	return box.ParseForms(src), val.I(k * (k - 1) / 2)
}

// deepRec: a non-tail recursion of the given depth that meets the other deep recursions at its bottom
// ((rv!) is a harness builtin: a rendezvous with a short timeout), directly or inside a future
func deepRec(i, depth int, inFuture bool) ([]val.V, val.V) {
	p := fmt.Sprintf("t%d_", i)
	callIt := fmt.Sprintf("(%sdeep %d)", p, depth)
	if inFuture {
		callIt = "(deref (future " + callIt + "))"
	}
	src := fmt.Sprintf("(def %sdeep (fn (n) (if (< n 1) (do (rv!) 0) (+ 1 (%sdeep (- n 1)))))) %s", p, p, callIt)
	return box.ParseForms(src), val.I(depth)
}

func genCase(t *rapid.T) Case {
	c := Case{Reps: 1 + gen.Uniform(t, "reps", 6), Writer: gen.Uniform(t, "writer", 2) == 0, Expect: map[int]val.V{}}
	n := 2 + gen.Uniform(t, "nprogs", 9)
	if gen.Chance(t, "alldeep", 16) {
		// every evaluation is deep in the host stack at the same moment
		c.Reps = 1 + gen.Uniform(t, "deepreps", 2)
		for i := 0; i < n; i++ {
			depth := []int{500, 5000, 30000}[gen.Uniform(t, "depth", 3)]
			if os.Getenv("VERIF_RACE") != "" && depth > 3000 {
				depth = 3000 // the race detector makes deep host stacks very slow; the race shards look for races, not for depth
			}
			forms, want := deepRec(i, depth, gen.Chance(t, "deepfuture", 3))
			c.Progs = append(c.Progs, forms)
			c.Std = append(c.Std, true)
			c.Expect[i] = want
		}
		return c
	}
	for i := 0; i < n; i++ {
		if gen.Chance(t, "spawnmap", 10) {
			forms, want := spawnMap(i, gen.Uniform(t, "spawnmapkind", 3))
			c.Progs = append(c.Progs, forms)
			c.Std = append(c.Std, true)
			c.Expect[i] = want
			continue
		}
		if gen.Chance(t, "manyfutures", 12) {
			forms, want := manyFutures(i, []int{5, 40}[gen.Uniform(t, "nworkers", 2)])
			c.Progs = append(c.Progs, forms)
			c.Std = append(c.Std, true)
			c.Expect[i] = want
			continue
		}
		if gen.Uniform(t, "spawn", 8) == 0 {
			forms, want := spawnLoop(i)
			c.Progs = append(c.Progs, forms)
			c.Std = append(c.Std, true)
			c.Expect[i] = want
			continue
		}
		if gen.Uniform(t, "std", 3) == 0 {
			c.Progs = append(c.Progs, stdlibUser(t, i))
			c.Std = append(c.Std, true)
			continue
		}
		c.Std = append(c.Std, false)
		p := gen.Program(t, gen.PFlags{Lib: true, Try: true, QQ: true, Macros: true, Budget: 30, MaxRec: 4, NoFaults: gen.Uniform(t, "nofault", 2) == 0})
		c.Progs = append(c.Progs, privatise(p.Forms, i))
	}
	return c
}

type outcome struct {
	errText string
	isErr   bool
	v       val.V
	trace   []val.V
}

func (o outcome) String() string {
	if o.isErr {
		return "error (" + o.errText + "), effects " + val.Canon(val.V{K: val.Vec, L: o.trace})
	}
	return val.Canon(o.v) + ", effects " + val.Canon(val.V{K: val.Vec, L: o.trace})
}

func same(a, b outcome) bool {
	if a.isErr != b.isErr || len(a.trace) != len(b.trace) {
		return false
	}
	if !a.isErr && !val.Eq(a.v, b.v) {
		return false
	}
	for i := range a.trace {
		if !val.Eq(a.trace[i], b.trace[i]) {
			return false
		}
	}
	return true
}

type traces struct {
	mu  sync.Mutex
	log map[int][]val.V
}

// rendezvous: arrivals wait for each other (need of them) for at most 300 ms
type rendezvous struct {
	mu    sync.Mutex
	need  int
	count int
	ch    chan struct{}
}

func (r *rendezvous) arrive() {
	r.mu.Lock()
	if r.need <= 1 {
		r.mu.Unlock()
		return
	}
	if r.ch == nil {
		r.ch = make(chan struct{})
	}
	ch := r.ch
	r.count++
	if r.count >= r.need {
		close(ch)
		r.ch, r.count = nil, 0
		r.mu.Unlock()
		return
	}
	r.mu.Unlock()
	select {
	case <-ch:
	case <-time.After(300 * time.Millisecond):
	}
}

func newEnv(n int) (types.EnvType, *traces) {
	return newEnvRV(n, 1)
}

func newEnvRV(n, meet int) (types.EnvType, *traces) {
	e := box.FullEnv()
	rv := &rendezvous{need: meet}
	call.CallOverrideFN(e, "rv!", func() (types.MalType, error) { rv.arrive(); return nil, nil })
	tr := &traces{log: map[int][]val.V{}}
	for i := 0; i < n; i++ {
		i := i
		call.CallOverrideFN(e, fmt.Sprintf("t%d_trace!", i), func(a types.MalType) (types.MalType, error) {
			tr.mu.Lock()
			tr.log[i] = append(tr.log[i], val.From(a))
			tr.mu.Unlock()
			return a, nil
		})
	}
	return e, tr
}

func runProg(ctx context.Context, e types.EnvType, tr *traces, i int, forms []val.V) (outcome, string) {
	tr.mu.Lock()
	tr.log[i] = nil
	tr.mu.Unlock()
	var r box.Result
	for _, f := range forms {
		src := val.Literal(f)
		r = box.Guard(func() (types.MalType, error) {
			ast, err := lisp.READ(src, nil, e)
			if err != nil {
				return nil, err
			}
			return lisp.EVAL(ctx, ast, e)
		})
		if r.Panicked {
			return outcome{}, fmt.Sprintf("panic: %v at %s", r.PanicVal, r.PanicSite)
		}
		if r.Err != nil {
			break
		}
	}
	tr.mu.Lock()
	t := append([]val.V{}, tr.log[i]...)
	tr.mu.Unlock()
	o := outcome{isErr: r.Err != nil, trace: t}
	if r.Err != nil {
		o.errText = r.Err.Error()
	}
	if r.Err == nil {
		o.v = val.From(r.Val)
	}
	return o, ""
}

func hasGensymResult(o outcome) bool { return false }

func check(c Case) pbt.Verdict {
	box.Silence()
	ctx, cancel := context.WithTimeout(context.Background(), 25*time.Second)
	defer cancel()
	n := len(c.Progs)
	// generated programs must terminate: the reference interpreter (with fuel) screens them, and its
	// verdict on error-or-value is compared with the solo run for good measure
	for i, p := range c.Progs {
		if i < len(c.Std) && c.Std[i] {
			continue
		}
		in := refmal.New()
		in.Fuel = 60000
		// the program's own trace builtin
		tv, _ := in.Global.Get("trace!")
		in.Global.Set(fmt.Sprintf("t%d_trace!", i), tv)
		if o := in.Run(p); o.Aborted != "" {
			return pbt.Verdict{Excluded: "model-" + strings.SplitN(o.Aborted, ":", 2)[0]}
		}
	}
	// solo: each program alone in a fresh environment
	solo := make([]outcome, n)
	for i, p := range c.Progs {
		if want, ok := c.Expect[i]; ok && strings.Contains(progText(p), "(rv!)") {
			solo[i] = outcome{v: want} // known by construction: the depth
			continue
		}
		e, tr := newEnv(n)
		o, bad := runProg(ctx, e, tr, i, p)
		if bad != "" {
			return pbt.Verdict{Excluded: "solo-panics(C04)"}
		}
		solo[i] = o
		if want, ok := c.Expect[i]; ok && (o.isErr || !val.Eq(o.v, want)) && strings.Contains(progText(p), "(rv!)") {
			return pbt.Verdict{Excluded: "deep-recursion-fails-alone"} // not this property's business
		}
		if want, ok := c.Expect[i]; ok && (o.isErr || !val.Eq(o.v, want)) {
			return pbt.Failf("futures-see-later-bindings", "program %d, run alone, must give %s (each future started by the loop reads the binding of ITS iteration) but gives {%s}\n%s", i, val.Canon(want), o, progText(p))
		}
	}
	// together: one environment, all programs at once, each repeated
	meet := 0
	for _, p := range c.Progs {
		if strings.Contains(progText(p), "(rv!)") {
			meet++
		}
	}
	e, tr := newEnvRV(n, meet)
	start := make(chan struct{})
	var wg sync.WaitGroup
	var mu sync.Mutex
	var firstBad string
	report := func(s string) {
		mu.Lock()
		if firstBad == "" {
			firstBad = s
		}
		mu.Unlock()
	}
	stop := make(chan struct{})
	if c.Writer {
		if r := box.ReadEval(ctx, "(def shared [0 0 0 0])", e); r.Err != nil {
			panic(r.Err)
		}
		wg.Add(2)
		go func() { // writer
			defer wg.Done()
			<-start
			for k := 1; ; k++ {
				select {
				case <-stop:
					return
				default:
				}
				if r := box.ReadEval(ctx, fmt.Sprintf("(def shared [%d %d %d %d])", k, k, k, k), e); r.Err != nil || r.Panicked {
					report(fmt.Sprintf("writer failed: %v %v", r.Err, r.PanicVal))
					return
				}
			}
		}()
		wg.Add(2)
		var defining atomic.Int64
		go func() { // a second writer defines NEW names whose value expression takes a while
			defer wg.Done()
			<-start
			for k := int64(1); ; k++ {
				select {
				case <-stop:
					return
				default:
				}
				defining.Store(k)
				if r := box.ReadEval(ctx, fmt.Sprintf("(def fresh-%d (do (sleep 1) [%d %d %d %d]))", k, k, k, k, k), e); r.Err != nil || r.Panicked {
					report(fmt.Sprintf("writer of new names failed: %v %v", r.Err, r.PanicVal))
					return
				}
			}
		}()
		go func() { // and a reader watches the name being defined: unbound, or entirely there
			defer wg.Done()
			<-start
			for {
				select {
				case <-stop:
					return
				default:
				}
				k := defining.Load()
				if k == 0 {
					continue
				}
				r := box.ReadEval(ctx, fmt.Sprintf("(try fresh-%d (catch e :undefined))", k), e)
				okv := false
				if r.Err == nil && !r.Panicked {
					v := val.From(r.Val)
					okv = val.Eq(v, val.K("undefined")) || val.Eq(v, val.Vc(val.I(int(k)), val.I(int(k)), val.I(int(k)), val.I(int(k))))
				}
				if !okv {
					report(fmt.Sprintf("reader saw an inconsistent shared global: fresh-%d is %s (err %v) while it was being defined for the first time", k, val.Canon(val.From(r.Val)), r.Err))
					return
				}
			}
		}()
		go func() { // reader: a global definition is seen entirely or not at all
			defer wg.Done()
			<-start
			for {
				select {
				case <-stop:
					return
				default:
				}
				r := box.ReadEval(ctx, "(let (s shared) (and (= (nth s 0) (nth s 1)) (= (nth s 1) (nth s 2)) (= (nth s 2) (nth s 3)) (= 4 (count s))))", e)
				if r.Err != nil || r.Panicked || r.Val != true {
					report(fmt.Sprintf("reader saw an inconsistent shared global: %v %v %v", r.Val, r.Err, r.PanicVal))
					return
				}
			}
		}()
	}
	var pwg sync.WaitGroup
	for i := range c.Progs {
		i := i
		pwg.Add(1)
		go func() {
			defer pwg.Done()
			<-start
			for rep := 0; rep < c.Reps; rep++ {
				o, bad := runProg(ctx, e, tr, i, c.Progs[i])
				if bad != "" {
					report(fmt.Sprintf("program %d: %s\n%s", i, bad, progText(c.Progs[i])))
					return
				}
				if !same(o, solo[i]) {
					report(fmt.Sprintf("program %d returns {%s} alone but {%s} when run together with the others (repetition %d)\n%s", i, solo[i], o, rep, progText(c.Progs[i])))
					return
				}
			}
		}()
	}
	close(start)
	done := make(chan struct{})
	go func() { pwg.Wait(); close(stop); wg.Wait(); close(done) }()
	select {
	case <-done:
	case <-time.After(40 * time.Second):
		return pbt.Failf("hang", "the concurrent run did not finish within 40 s")
	}
	if firstBad == "" {
		if v, ok := box.Lookup(e, "scratch"); ok {
			firstBad = fmt.Sprintf("the working name scratch, defined only inside future bodies, is bound to %s in the shared environment afterwards", val.Canon(val.From(v)))
		}
	}
	if firstBad != "" {
		sig := "solo-vs-concurrent-differ"
		if strings.Contains(firstBad, "timeout while") {
			// the shared 25 s context ran out: a deadlock if it reproduces, machine load if it does not
			sig = "hang:timeout-under-concurrency"
		} else if strings.Contains(firstBad, "the working name scratch") {
			sig = "local-definition-leaked"
		} else if strings.Contains(firstBad, "inconsistent shared") {
			sig = "torn-global"
		} else if strings.Contains(firstBad, "panic") {
			sig = "panic-under-concurrency"
		}
		all := []string{}
		for i, p := range c.Progs {
			all = append(all, fmt.Sprintf(";; program %d\n%s", i, progText(p)))
		}
		return pbt.Failf(sig, "%s\n\nall programs:\n%s", firstBad, strings.Join(all, "\n"))
	}
	v := pbt.Verdict{Key: fmt.Sprint(c.Reps, c.Writer) + progText(c.Progs[0]) + fmt.Sprint(n)}
	for _, p := range c.Progs[1:] {
		v.Key += progText(p)
	}
	txt := v.Key
	v.NonTrivial = n >= 4 && (strings.Contains(txt, "(or ") || strings.Contains(txt, "(and ") || strings.Contains(txt, "gensym") || strings.Contains(txt, "defmacro"))
	v.Labels = append(v.Labels, fmt.Sprintf("programs:%d", n))
	if c.Writer {
		v.Labels = append(v.Labels, "with-writer-and-reader")
	}
	if meet > 0 {
		v.Labels = append(v.Labels, fmt.Sprintf("deep-recursions-side-by-side:%d", meet))
	}
	return v
}

var P = pbt.Prop[Case]{
	ID:          "C11",
	Gen:         genCase,
	Check:       check,
	ReplayTries: 10,
	Show: func(c Case) any {
		out := []string{}
		for _, p := range c.Progs {
			out = append(out, progText(p))
		}
		return map[string]any{"programs": out, "reps": c.Reps, "writer": c.Writer}
	},
}

func TestMain(m *testing.M)   { pbt.Main(m) }
func TestProp(t *testing.T)   { pbt.Run(t, P) }
func TestCorpus(t *testing.T) { pbt.Corpus(t, P) }
func TestReplay(t *testing.T) { pbt.Replay(t, P) }
