package c08

import (
	"context"
	"encoding/json"
	"fmt"
	"os"
	"os/exec"
	"runtime"
	"runtime/debug"
	"strings"
	"testing"
	"time"

	"github.com/jig/lisp"
	"github.com/jig/lisp/debuggertypes"
	"github.com/jig/lisp/lib/call"
	"github.com/jig/lisp/types"
	"pgregory.net/rapid"

	"verifharness/internal/box"
	"verifharness/internal/gen"
	"verifharness/internal/pbt"
)

// Case: k mutually recursive functions; function i's body is
// (if (< n 1) (depth!) CTX_i[(f_{i+1} (- n 1))]) with CTX_i a composition of tail contexts.
type Case struct {
	Bodies       []string // text of each function body with CALL standing for the tail call
	Calls        []string // how the tail call itself is written: plain | thread | macro
	Uses         []string
	Thunks       []bool // function i takes no parameter; the counter lives in an atom
	AfterStepper []int  `json:",omitempty"` // commands a debugger stepper answered in a session that ended BEFORE the loop runs
	Meta         []bool `json:",omitempty"` // function i went through with-meta before it was bound
	Variadic     []bool `json:",omitempty"` // function i takes (n & r)
	Long         bool   // also run longIterations iterations in a child process under a small maximum stack
}

type ctxGen struct {
	t    *rapid.T
	uses map[string]bool
}

func (g *ctxGen) pick(label string, n int) int { return gen.Uniform(g.t, label, n) }

// tail contexts: HOLE is in tail position of every template
var tailCtx = []struct{ name, text string }{
	{"do", "(do (identity n) HOLE)"},
	{"do-long", "(do 1 2 (if n 3) HOLE)"},
	{"let", "(let (m n) HOLE)"},
	{"let-body", "(let [m n k 2] (identity m) (identity k) HOLE)"},
	{"let-empty-bindings", "(let () HOLE)"},
	{"if-then", "(if true HOLE 0)"},
	{"if-else", "(if false 0 HOLE)"},
	{"if-nil-else", "(if nil 0 HOLE)"},
	{"if-computed", "(if (< n 0) 0 HOLE)"},
	{"if-then-no-else", "(if n HOLE)"},
	{"cond-last", "(cond false 1 nil 2 true HOLE)"},
	{"cond-first", "(cond (> n -1) HOLE true 0)"},
	{"cond-else-keyword", "(cond false 1 :else HOLE)"},
	{"and-last", "(and true n HOLE)"},
	{"and-two", "(and n HOLE)"},
	{"or-last", "(or false nil HOLE)"},
	{"or-two", "(or nil HOLE)"},
	{"or-single", "(or HOLE)"},
	{"and-single", "(and HOLE)"},
	{"quasiquote-unquote", "(quasiquote (unquote HOLE))"},
	{"inner-fn-body", "((fn (q) (identity q) HOLE) n)"},
	{"inner-fn-vector-params", "((fn [q r] HOLE) n 1)"},
	{"if-not-then", "(if (not false) HOLE 0)"},
	{"if-not-else", "(if (not true) 0 HOLE)"},
	{"if-not-computed", "(if (not (< n 0)) HOLE 0)"},
	{"if-not-no-else", "(if (not nil) HOLE)"},
	{"cond-not", "(cond (not true) 0 (not false) HOLE)"},
	{"if-equals", "(if (= n n) HOLE 0)"},
	{"if-nil?", "(if (nil? n) 0 HOLE)"},
	{"if-and-test", "(if (and true n) HOLE 0)"},
	{"if-or-test", "(if (or nil n) HOLE)"},
	{"if-let-test", "(if (let (t n) t) HOLE)"},
	{"if-symbol-test", "(if n HOLE 0)"},
	{"when-macro", "(when1 true HOLE)"},
	{"unless-macro", "(unless1 false (identity 1) HOLE)"},
}

const prelude = `(do
  (defmacro when1 (fn (c & body) ` + "`" + `(if ~c (do ~@body))))
  (defmacro unless1 (fn (c & body) ` + "`" + `(if ~c nil (do ~@body))))
  (defmacro hand-over (fn (f & args) ` + "`" + `(~f ~@args)))
  (defmacro hand-over-list (fn (f & args) (cons f args))))`

func (g *ctxGen) ctx(d int) string {
	if d <= 0 {
		return "HOLE"
	}
	c := tailCtx[g.pick("ctx", len(tailCtx))]
	g.uses[c.name] = true
	return strings.Replace(c.text, "HOLE", g.ctx(d-1), 1)
}

func genCase(t *rapid.T) Case {
	g := &ctxGen{t: t, uses: map[string]bool{}}
	k := 1 + g.pick("nfn", 4)
	c := Case{}
	for i := 0; i < k; i++ {
		c.Bodies = append(c.Bodies, g.ctx(g.pick("depth", 6)))
		call := []string{"plain", "plain", "plain", "thread", "macro", "macro-list", "thread-fn", "atoms", "atoms"}[g.pick("callstyle", 9)]
		g.uses["call:"+call] = true
		c.Calls = append(c.Calls, call)
		c.Thunks = append(c.Thunks, g.pick("thunk", 4) == 0)
		c.Meta = append(c.Meta, g.pick("meta", 5) == 0)
		c.Variadic = append(c.Variadic, g.pick("variadic", 5) == 0)
	}
	for u := range g.uses {
		c.Uses = append(c.Uses, u)
	}
	if g.pick("afterstepper", 5) == 0 {
		// a debugging session that is over (stepper detached) before the loops run; no reset hook in between
		for i, n := 0, 1+g.pick("nsteps", 6); i < n; i++ {
			c.AfterStepper = append(c.AfterStepper, g.pick("cmd", 4))
		}
	}
	c.Long = os.Getenv("VERIF_TIER") == "thorough" && gen.Chance(g.t, "long", 40)
	return c
}

func program(c Case) string {
	var sb strings.Builder
	k := len(c.Bodies)
	thunk := func(i int) bool { return i < len(c.Thunks) && c.Thunks[i] }
	sb.WriteString("(def ctr (atom 0))\n")
	for i, b := range c.Bodies {
		j := (i + 1) % k
		next := fmt.Sprintf("f%d", j)
		arg := "(- n 1)"
		var callText string
		switch {
		case thunk(j):
			// the callee takes no argument: the counter is passed through the atom
			switch c.Calls[i] {
			case "macro", "macro-list":
				callText = "(hand-over " + next + ")"
			default:
				callText = "(" + next + ")"
			}
			callText = "(do (reset! ctr (- n 1)) " + callText + ")"
		case c.Calls[i] == "atoms":
			// every operand of the tail call is a symbol or a literal
			callText = "(let (m (- n 1)) (" + next + " m))"
		case c.Calls[i] == "thread":
			callText = "(-> n (- 1) " + next + ")"
		case c.Calls[i] == "thread-fn":
			callText = "(-> n dec (" + next + "))"
		case c.Calls[i] == "macro":
			callText = "(hand-over " + next + " " + arg + ")"
		case c.Calls[i] == "macro-list":
			callText = "(hand-over-list " + next + " " + arg + ")"
		default:
			callText = "(" + next + " " + arg + ")"
		}
		body := fmt.Sprintf("(if (< n 1) (depth!) %s)", strings.Replace(b, "HOLE", callText, 1))
		fnText := fmt.Sprintf("(fn (n) %s)", body)
		if thunk(i) {
			fnText = fmt.Sprintf("(fn () (let (n @ctr) %s))", body)
		} else if i < len(c.Variadic) && c.Variadic[i] {
			fnText = fmt.Sprintf("(fn (n & more) %s)", body)
		}
		if i < len(c.Meta) && c.Meta[i] {
			if i%2 == 0 {
				fnText = "(with-meta " + fnText + " {:doc \"annotated\"})"
			} else {
				fnText = "^{:doc \"annotated\"} " + fnText
			}
		}
		sb.WriteString(fmt.Sprintf("(def f%d %s)\n", i, fnText))
	}
	return sb.String()
}

func newEnv() types.EnvType {
	e := box.FullEnv()
	call.CallOverrideFN(e, "depth!", func() (int, error) {
		pcs := make([]uintptr, 1<<16)
		return runtime.Callers(0, pcs), nil
	})
	if r := box.ReadEval(context.Background(), prelude, e); r.Err != nil || r.Panicked {
		panic(fmt.Sprintf("prelude: %v %v", r.Err, r.PanicVal))
	}
	return e
}

func depthAt(e types.EnvType, thunk0 bool, n int) (int, error) {
	ctx, cancel := context.WithTimeout(context.Background(), 120*time.Second)
	defer cancel()
	src := fmt.Sprintf("(f0 %d)", n)
	if thunk0 {
		src = fmt.Sprintf("(do (reset! ctr %d) (f0))", n)
	}
	r := box.ReadEval(ctx, src, e)
	if r.Panicked {
		return 0, fmt.Errorf("panic: %v", r.PanicVal)
	}
	if r.Err != nil {
		return 0, r.Err
	}
	d, ok := r.Val.(int)
	if !ok {
		return 0, fmt.Errorf("loop returned %T %v", r.Val, r.Val)
	}
	return d, nil
}

func check(c Case) pbt.Verdict {
	box.Silence()
	e := newEnv()
	prog := program(c)
	if r := box.ReadEval(context.Background(), "(do "+prog+")", e); r.Err != nil || r.Panicked {
		return pbt.Failf("harness:program", "definitions failed: %v %v\n%s", r.Err, r.PanicVal, prog)
	}
	v := pbt.Verdict{Key: prog}
	for _, u := range c.Uses {
		v.Labels = append(v.Labels, "ctx:"+u)
	}
	if len(c.AfterStepper) > 0 {
		i := 0
		lisp.Stepper = func(ast types.MalType, ns types.EnvType) debuggertypes.Command {
			cmd := c.AfterStepper[i%len(c.AfterStepper)]
			i++
			return debuggertypes.Command(cmd)
		}
		_ = box.ReadEval(context.Background(), "(do (+ 1 2) (let (q 1) (list q (- q 1))) (if true (+ 2 3) 0))", e)
		lisp.Stepper = nil // detached; the stepping flags are deliberately NOT reset here
		defer lisp.VerifResetStepper()
		v.Labels = append(v.Labels, "after-a-detached-stepper-session")
	}
	var depths []int
	for _, n := range []int{1, 2, 10, 11, 150} {
		d, err := depthAt(e, len(c.Thunks) > 0 && c.Thunks[0], n)
		if err != nil {
			return pbt.Failf("loop-fails", "(f0 %d) failed: %v\n%s", n, err, prog)
		}
		depths = append(depths, d)
	}
	for i := 1; i < len(depths); i++ {
		if depths[i] != depths[0] {
			return pbt.Failf("stack-grows:"+blame(c), "host stack depth depends on the iteration count: n=1,2,10,11,150 -> %v frames\n%s", depths, prog)
		}
	}
	if c.Long {
		msg := runLong(c)
		switch {
		case msg == "":
			v.Labels = append(v.Labels, "long-run-completed")
		case strings.HasPrefix(msg, "inconclusive"):
			v.Labels = append(v.Labels, "long-run-inconclusive(time budget)")
		default:
			return pbt.Failf("long-loop-dies", "%d iterations under a 16 MiB maximum stack: %s\n%s", longIterations, msg, prog)
		}
	}
	kinds := map[string]bool{}
	for _, u := range c.Uses {
		if !strings.HasPrefix(u, "call:") {
			kinds[u] = true
		}
	}
	v.NonTrivial = len(kinds) >= 2 || len(c.Bodies) >= 2
	return v
}

// blame: a short signature of the constructs involved (for root-cause grouping)
func blame(c Case) string {
	us := append([]string{}, c.Uses...)
	if len(us) > 3 {
		us = us[:3]
	}
	return strings.Join(us, ",")
}

// longIterations: enough to exhaust a 16 MiB stack if even one frame leaked per iteration (335 bytes
// per iteration suffice; a lisp-level call costs well over 1 KiB of host stack). One iteration of a
// deep shape with user macros costs up to 0.5 ms, so that more iterations only end in the time budget.
const longIterations = 50000

func runLong(c Case) string {
	b, _ := json.Marshal(c)
	cmd := exec.Command(os.Args[0], "-test.run", "^TestChildLong$", "-test.timeout", "0")
	cmd.Env = append(os.Environ(), "VERIF_CHILD_CASE="+string(b), "VERIF_OUT=", "VERIF_FAIL=")
	done := make(chan struct{})
	var out []byte
	var err error
	go func() { out, err = cmd.CombinedOutput(); close(done) }()
	select {
	case <-done:
	case <-time.After(180 * time.Second):
		_ = cmd.Process.Kill()
		return "inconclusive: child still running after 180 s"
	}
	if strings.Contains(string(out), "CHILD-OK") {
		return ""
	}
	if strings.Contains(string(out), "CHILD-TIMEOUT") {
		return "inconclusive: the long run did not finish within its time budget"
	}
	tail := string(out)
	if len(tail) > 600 {
		tail = tail[:600]
	}
	return fmt.Sprintf("child died (%v): %s", err, tail)
}

func TestChildLong(t *testing.T) {
	cs := os.Getenv("VERIF_CHILD_CASE")
	if cs == "" {
		t.Skip("child only")
	}
	var c Case
	if err := json.Unmarshal([]byte(cs), &c); err != nil {
		t.Fatal(err)
	}
	debug.SetMaxStack(16 << 20)
	box.Silence()
	e := newEnv()
	if r := box.ReadEval(context.Background(), "(do "+program(c)+")", e); r.Err != nil {
		t.Fatal(r.Err)
	}
	d, err := depthAt(e, len(c.Thunks) > 0 && c.Thunks[0], longIterations)
	if err != nil {
		if strings.Contains(err.Error(), "timeout") {
			// a time budget, not a verdict
			fmt.Fprintf(pbt.Out, "CHILD-TIMEOUT\n")
			return
		}
		t.Fatal(err)
	}
	fmt.Fprintf(pbt.Out, "CHILD-OK depth=%d\n", d)
}

var P = pbt.Prop[Case]{
	ID:    "C08",
	Gen:   genCase,
	Check: check,
	Show:  func(c Case) any { return program(c) },
}

func TestMain(m *testing.M)   { pbt.Main(m) }
func TestProp(t *testing.T)   { pbt.Run(t, P) }
func TestCorpus(t *testing.T) { pbt.Corpus(t, P) }
func TestReplay(t *testing.T) { pbt.Replay(t, P) }

// TestEachContext: every single tail context alone, with every call style (enumerated completely).
func TestEachContext(t *testing.T) {
	n := 0
	for _, tc := range tailCtx {
		for _, cs := range []string{"plain", "thread", "thread-fn", "macro", "macro-list", "atoms"} {
			n++
			if !pbt.RunOne(t, P, Case{Bodies: []string{tc.text}, Calls: []string{cs}, Uses: []string{tc.name, "call:" + cs}}) {
				return
			}
			n++
			if !pbt.RunOne(t, P, Case{Bodies: []string{tc.text, "HOLE"}, Calls: []string{cs, "plain"}, Uses: []string{tc.name, "call:" + cs, "mutual"}}) {
				return
			}
		}
	}
	for _, tc := range tailCtx {
		for _, v := range []Case{{Meta: []bool{true}}, {Variadic: []bool{true}}, {Meta: []bool{false, true}, Bodies: []string{tc.text, "HOLE"}, Calls: []string{"plain", "plain"}}, {Variadic: []bool{false, true}, Bodies: []string{tc.text, "HOLE"}, Calls: []string{"plain", "plain"}}} {
			if v.Bodies == nil {
				v.Bodies, v.Calls = []string{tc.text}, []string{"plain"}
			}
			v.Uses = []string{tc.name, "call:plain", "annotated-or-variadic"}
			n++
			if !pbt.RunOne(t, P, v) {
				return
			}
		}
	}
	pbt.Exhaustive("every tail context alone x call style x {self, mutual} recursion, and x {function with metadata, variadic function}", n)
}
