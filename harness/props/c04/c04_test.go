package c04

import (
	"context"
	"fmt"
	"os"
	"sort"
	"strconv"
	"strings"
	"testing"
	"time"

	"github.com/jig/lisp"
	"github.com/jig/lisp/types"
	"pgregory.net/rapid"

	"verifharness/internal/box"
	"verifharness/internal/gen"
	"verifharness/internal/pbt"
	"verifharness/internal/val"
)

// Case: a program text (Kind "text": read with READ) or a builtin applied to arguments
// bound from Go (Kind "builtin").
type Case struct {
	Kind  string
	Text  string   `json:",omitempty"`
	Fn    string   `json:",omitempty"` // builtin: symbol applied
	Args  []string `json:",omitempty"` // builtin: argument kinds (see argValue)
	GoAST bool     `json:",omitempty"` // text: evaluate the AST rebuilt from Go without cursors
}

var heads = []string{"def", "let", "fn", "defmacro", "macroexpand", "quasiquote", "quasiquoteexpand", "unquote", "splice-unquote", "try", "catch", "finally", "do", "if", "quote", "eval", "apply", "throw", "swap!"}

var shapes = []string{
	"nil", "1", "\"s\"", ":k", "a", "zz", "&", "()", "(1)", "(a)", "(&)", "(a &)", "(& 1)", "(& a)", "(a & b c)", "(1 2)", "[]", "[a]", "[1]", "[& a]", "[a a]",
	"{}", "{:a 1}", "#{}", "(fn (x) x)", "(fn)", "(catch)", "(catch e)", "(catch 1 2)", "(catch e 1)", "(catch (e) 1)", "(finally)", "(finally 1)", "(finally (throw 1))",
	"(unquote)", "(splice-unquote)", "(unquote 1 2)", "(quote)", "(throw 1)", "(quasiquote (unquote))", "((splice-unquote))", "(list 1 2)", "+", "(atom 1)", "(do)", "[catch e 2]", "[finally 2]", "[catch]", "[finally]", "[unquote 1]", "[splice-unquote a]", "[fn (x) x]", "[quote]", "[& a]", "{:catch e}", "#{}",
}

var wraps = []string{"%s", "(%s 1)", "(quasiquote ((unquote %s)))", "(try %s (catch e e))", "(eval (quote %s))", "(macroexpand %s)", "(do (defmacro zm (fn () (quote %s))) (zm))", "(let (f (fn () %s)) (f))", "(try 1 (finally %s))", "[%s]", "{:k %s}"}

// function values built in different ways x ways of using them (the value is bound to vf)
var fnValues = []string{
	"(fn (x) x)", "(fn (x & r) x)", "(fn () 1)", "(fn [x y] (list x y))", "(with-meta (fn (x) x) {:a 1})", "^{:a 1} (fn (x) x)", "(with-meta (with-meta (fn (x) x) {:a 1}) nil)",
	"(with-meta (fn (x & r) (list x r)) \"doc\")", "(first (list (fn (x) x)))", "(deref (atom (fn (x) x)))", "(eval (quote (fn (x) x)))", "(memoize (fn (x) x))",
	"(let (y 1) (fn (x) (+ x y)))", "+", "(with-meta + {:a 1})", "cond", "(with-meta cond {:a 1})", "(with-meta (fn (x) (list (quote quote) x)) {:macro true})",
	"(meta (with-meta [1] (fn (x) x)))", "(get {:f (fn (x) x)} :f)", "((fn (g) g) (fn (x) x))",
}

var fnUses = []string{
	"(vf 1)", "(vf)", "(vf 1 2)", "(vf nil)", "(apply vf [1])", "(apply vf 1 [2])", "(apply vf [])", "(map vf [1 2])", "(map vf [])",
	"(do (defmacro zm vf) (zm 1))", "(do (defmacro zm vf) (zm))", "(do (defmacro zm vf) (zm 1 2))", "(do (defmacro zm vf) (macroexpand (zm 1)))", "(do (defmacro zm vf) (macroexpand (zm)))",
	"(do (defmacro zm vf) (let (k 2) (zm k)))", "(do (defmacro zm (with-meta vf {:b 2})) (zm 1))", "(do (defmacro zm vf) (try (zm 1) (catch e e)))",
	"(do (def zf vf) (zf 1))", "(swap! (atom 1) vf)", "(swap! (atom 1) vf 2)", "(update {:a 1} :a vf)", "(reduce vf 0 [1 2])", "(reduce vf [1 2])",
	"(deref (future-call vf))", "(deref (future (vf 1)))", "(vf vf)", "((with-meta vf {:b 2}) 1)", "(meta vf)", "(fn? vf)", "(macro? vf)", "(= vf vf)", "(str vf)", "(pr-str vf)",
	"(try (vf) (catch e e))", "(let (g vf) (g 1))", "(every? vf [1 2])", "(some vf [1 2])", "(run-fn-once vf)", "(vf (vf 1))", "[(vf 1) (vf)]", "{:k (vf)}", "`(~(vf 1) ~@(vf [1]))",
}

// faults x positions inside try (zf takes one argument, zf2 two, zl is a list, zq a number)
var tryFaults = []string{"(zf 1 2)", "(zf)", "(zf2 1)", "zz-unbound", "(zz-unbound 1)", "(nth zl 5)", "(throw 1)", "(throw zl)", "(1 2)", "(let 5 1)", "(zm2)", "(apply zf [1 2])", "((fn (& r) (zf)) 1)", "(+ 1 nil)", "(zf e :extra)", "(zf2 e)"}

const tryPrelude = "(def zf (fn (a) a)) (def zf2 (fn (a b) a)) (def zl (list 1 2)) (def zq 3) (defmacro zm2 (fn (a) a)) "

func tryForms(fault string) []string {
	out := []string{}
	bodies := []string{fault, "(throw 7)", "1"}
	handlers := []string{"", "(catch e " + fault + ")", "(catch e " + fault + " 1)", "(catch e 1 " + fault + ")", "(catch e (zf e))", "(catch e e)"}
	finals := []string{"", "(finally 1)", "(finally zq)", "(finally (count zl))", "(finally " + fault + ")", "(finally (zf 1) zq)"}
	for _, b := range bodies {
		for _, h := range handlers {
			for _, f := range finals {
				if h == "" && f == "" {
					continue
				}
				out = append(out, strings.Join(strings.Fields("(try "+b+" "+h+" "+f+")"), " "))
			}
		}
	}
	return out
}

var tryWraps = []string{"%s", "(try %s (catch e2 e2))", "(let (r (fn () %s)) (r))", "(do %s 1)", "(try %s (finally zq))"}

func formText(head string, ops []string) string {
	if len(ops) == 0 {
		return "(" + head + ")"
	}
	return "(" + head + " " + strings.Join(ops, " ") + ")"
}

type tg struct{ t *rapid.T }

func (g tg) pick(label string, n int) int { return gen.Uniform(g.t, label, n) }

func (g tg) malformed(d int) string {
	head := heads[g.pick("head", len(heads))]
	n := g.pick("nops", 5)
	ops := make([]string, n)
	for i := range ops {
		if d > 0 && g.pick("nest", 4) == 0 {
			ops[i] = g.malformed(d - 1)
		} else {
			ops[i] = shapes[g.pick("shape", len(shapes))]
		}
	}
	return formText(head, ops)
}

var argKinds = []string{"nil", "int", "neg", "big", "str", "kw", "sym", "list", "vec", "map", "set", "fn", "builtin", "atom", "goerr", "nil-list", "nil-map", "nil-set", "empty", "fn0", "macro"}

func genCase(t *rapid.T) Case {
	g := tg{t}
	switch g.pick("kind2", 8) {
	case 0:
		return Case{Kind: "text", Text: "(let (vf " + fnValues[g.pick("fnvalue", len(fnValues))] + ") " + fnUses[g.pick("fnuse", len(fnUses))] + ")", GoAST: g.pick("goast", 3) == 0}
	case 1:
		fs := tryForms(tryFaults[g.pick("tryfault", len(tryFaults))])
		return Case{Kind: "text", Text: "(do " + tryPrelude + fmt.Sprintf(tryWraps[g.pick("trywrap", len(tryWraps))], fs[g.pick("tryform", len(fs))]) + ")", GoAST: g.pick("goast", 3) == 0}
	}
	switch g.pick("kind", 5) {
	case 0, 1:
		f := g.malformed(2)
		if g.pick("bare", 8) == 0 {
			f = shapes[g.pick("bareshape", len(shapes))]
		}
		return Case{Kind: "text", Text: fmt.Sprintf(wraps[g.pick("wrap", len(wraps))], f), GoAST: g.pick("goast", 3) == 0}
	case 2:
		// break a well-formed program: drop / duplicate / replace one token
		p := gen.Program(t, gen.PFlags{Cond: true, Try: true, QQ: true, Macros: true, Budget: 30})
		var toks []gen.Tok
		for _, f := range p.Forms {
			toks = append(toks, gen.Tokens(f, false)...)
		}
		if len(toks) > 2 {
			i := g.pick("tokpos", len(toks))
			switch g.pick("tokmut", 3) {
			case 0:
				if !toks[i].Open && !toks[i].Close {
					toks = append(toks[:i], toks[i+1:]...)
				}
			case 1:
				if !toks[i].Open && !toks[i].Close {
					toks = append(toks[:i+1], toks[i:]...)
				}
			default:
				if !toks[i].Open && !toks[i].Close {
					toks[i] = gen.Tok{Text: shapes[g.pick("repl", len(shapes))]}
				}
			}
		}
		return Case{Kind: "text", Text: "(do " + gen.Plain(toks) + ")", GoAST: g.pick("goast", 3) == 0}
	default:
		c := Case{Kind: "builtin", Fn: "?"}
		names := builtinNames()
		c.Fn = names[g.pick("builtin", len(names))]
		n := g.pick("nargs", 5)
		for i := 0; i < n; i++ {
			c.Args = append(c.Args, argKinds[g.pick("argkind", len(argKinds))])
		}
		return c
	}
}

var excludedBuiltins = map[string]bool{"readline": true, "run-fn-for": true, "run-fn-for*": true, "benchmark*": true, "spew": true, "pprint": true, "load-file-once": true, "time": true, "benchmark": true, "sleep": true}

var cachedNames []string

func builtinNames() []string {
	if cachedNames != nil {
		return cachedNames
	}
	e := box.FullEnv()
	seen := map[string]bool{}
	for _, rs := range e.Symbols(nil, "") {
		n := string(rs)
		if seen[n] || excludedBuiltins[n] {
			continue
		}
		seen[n] = true
		v, ok := box.Lookup(e, n)
		if !ok {
			continue
		}
		switch v.(type) {
		case types.Func, types.MalFunc:
			cachedNames = append(cachedNames, n)
		}
	}
	sort.Strings(cachedNames)
	return cachedNames
}

func argValue(kind string, e types.EnvType) types.MalType {
	ev := func(s string) types.MalType {
		r := box.ReadEval(context.Background(), s, e)
		return r.Val
	}
	switch kind {
	case "nil":
		return nil
	case "int":
		return 3
	case "neg":
		return -1
	case "big":
		return 200000
	case "str":
		return "text"
	case "kw":
		return types.NewKeyword("k")
	case "sym":
		return types.Symbol{Val: "sy"}
	case "list":
		return types.List{Val: []types.MalType{1, "a", types.NewKeyword("k")}}
	case "vec":
		return types.Vector{Val: []types.MalType{1, 2}}
	case "map":
		return types.HashMap{Val: map[string]types.MalType{types.NewKeyword("a"): 1, "s": nil}}
	case "set":
		return types.Set{Val: map[string]struct{}{"a": {}}}
	case "fn":
		return ev("(fn (x) x)")
	case "fn0":
		return ev("(fn () (throw 1))")
	case "macro":
		return ev("(do (defmacro zmac (fn (x) x)) zmac)")
	case "builtin":
		return ev("list")
	case "atom":
		return ev("(atom [1])")
	case "goerr":
		return fmt.Errorf("a go error")
	case "nil-list":
		return types.List{}
	case "nil-map":
		return types.HashMap{}
	case "nil-set":
		return types.Set{}
	case "empty":
		return types.Vector{Val: []types.MalType{}}
	}
	return nil
}

func isTimeout(err error) bool {
	s := strings.ToLower(err.Error())
	return strings.Contains(s, "timeout") || strings.Contains(s, "deadline") || strings.Contains(s, "cancel")
}

// stripCursors rebuilds an AST as Go code would: no positions anywhere.
func stripCursors(x types.MalType) types.MalType { return val.To(val.From(x)) }

func convertible(x types.MalType) bool {
	ok := true
	var w func(v val.V)
	w = func(v val.V) {
		switch v.K {
		case val.Fn, val.GoErr, val.Atom, val.Other:
			ok = false
		case val.List, val.Vec:
			for _, e := range v.L {
				w(e)
			}
		case val.Map:
			for _, e := range v.M {
				w(e)
			}
		}
	}
	w(val.From(x))
	return ok
}

func check(c Case) pbt.Verdict {
	box.Silence()
	v := pbt.Verdict{}
	build := func() (types.EnvType, types.MalType, string, error) {
		if c.Kind == "builtin" {
			e := box.FullEnv()
			form := []types.MalType{types.Symbol{Val: c.Fn}}
			for i, k := range c.Args {
				name := fmt.Sprintf("verif-a%d", i)
				e.Set(types.Symbol{Val: name}, argValue(k, e))
				form = append(form, types.Symbol{Val: name})
			}
			return e, types.List{Val: form}, "(" + c.Fn + " " + strings.Join(c.Args, " ") + ")", nil
		}
		e := box.FullEnv()
		r := box.Guard(func() (types.MalType, error) { return lisp.READ(c.Text, nil, e) })
		if r.Panicked {
			return nil, nil, "", fmt.Errorf("read-panic")
		}
		if r.Err != nil {
			return nil, nil, "", r.Err
		}
		ast := r.Val
		if c.GoAST && convertible(ast) {
			ast = stripCursors(ast)
		}
		return e, ast, c.Text, nil
	}
	e, ast, desc, err := build()
	v.Key = c.Kind + "\x00" + desc + fmt.Sprint(c.GoAST)
	if err != nil {
		return pbt.Verdict{Excluded: "does-not-read", Key: v.Key}
	}
	// 300 ms: a runaway non-tail recursion (possible after token mutation) grows the Go stack by about
	// 0.5 GB per second; the context must end well before the runtime's 1 GB stack limit kills the process
	ctx, cancel := context.WithTimeout(context.Background(), 300*time.Millisecond)
	r := box.Eval(ctx, ast, e)
	cancel()
	if r.Panicked {
		return pbt.Failf("panic:"+r.PanicSite, "EVAL of %s panicked: %v", desc, r.PanicVal)
	}
	outcome := "value"
	if r.Err != nil {
		outcome = "error"
		if isTimeout(r.Err) {
			outcome = "timeout"
		}
	}
	v.Labels = append(v.Labels, "kind:"+c.Kind+":"+outcome)
	if c.Kind == "builtin" {
		v.Labels = append(v.Labels, "builtin:"+c.Fn)
	}
	// every such error is an ordinary lisp error that try/catch can handle
	if outcome == "error" {
		e2, ast2, _, err2 := build()
		if err2 == nil {
			wrapped := types.List{Val: []types.MalType{types.Symbol{Val: "try"}, ast2,
				types.List{Val: []types.MalType{types.Symbol{Val: "catch"}, types.Symbol{Val: "e__"}, types.NewKeyword("caught__")}}}}
			ctx2, cancel2 := context.WithTimeout(context.Background(), 300*time.Millisecond)
			r2 := box.Eval(ctx2, wrapped, e2)
			cancel2()
			if r2.Panicked {
				return pbt.Failf("panic:"+r2.PanicSite, "EVAL of (try %s (catch e :caught)) panicked: %v", desc, r2.PanicVal)
			}
			if r2.Err != nil && !isTimeout(r2.Err) {
				return pbt.Failf("error-not-catchable", "%s fails with %v, but (try … (catch e :caught)) fails too: %v", desc, r.Err, r2.Err)
			}
			if r2.Err == nil && r2.Val != types.NewKeyword("caught__") {
				// the first run failed, the wrapped run succeeded with another value: only possible for
				// nondeterministic builtins (time, uuid…): not judged
				v.Labels = append(v.Labels, "catch:value-differs")
			}
		}
	}
	v.NonTrivial = outcome != "timeout"
	return v
}

var P = pbt.Prop[Case]{
	ID:    "C04",
	Gen:   genCase,
	Check: check,
	Show: func(c Case) any {
		if c.Kind == "builtin" {
			return "(" + c.Fn + " " + strings.Join(c.Args, " ") + ")"
		}
		return c.Text
	},
}

func TestMain(m *testing.M)   { pbt.Main(m) }
func TestProp(t *testing.T)   { pbt.Run(t, P) }
func TestCorpus(t *testing.T) { pbt.Corpus(t, P) }
func TestReplay(t *testing.T) { pbt.Replay(t, P) }

// TestTable: every special-form head x 0, 1 and 2 operands from the shape list, in every wrapper.
func TestTable(t *testing.T) {
	shard, _ := strconv.Atoi(os.Getenv("VERIF_SHARD"))
	shards, _ := strconv.Atoi(os.Getenv("VERIF_SHARDS"))
	if shards <= 0 {
		shards = 1
	}
	two := os.Getenv("VERIF_TABLE_OPS") != "1"
	n, i := 0, 0
	run := func(f string) bool {
		for _, w := range wraps {
			i++
			if i%shards != shard {
				continue
			}
			n++
			if !pbt.RunOne(t, P, Case{Kind: "text", Text: fmt.Sprintf(w, f), GoAST: i%3 == 0}) {
				return false
			}
		}
		return true
	}
	// bare operand shapes in every wrapper (e.g. a macro that expands to () or to an atom)
	for _, a := range shapes {
		if !run(a) {
			return
		}
	}
	for _, h := range heads {
		if !run(formText(h, nil)) {
			return
		}
		for _, a := range shapes {
			if !run(formText(h, []string{a})) {
				return
			}
			if !two {
				continue
			}
			for _, b := range shapes {
				if !run(formText(h, []string{a, b})) {
					return
				}
			}
		}
	}
	pbt.Exhaustive(fmt.Sprintf("%d heads x {0,1%s} operands from %d shapes x %d wrappers", len(heads), map[bool]string{true: ",2", false: ""}[two], len(shapes), len(wraps)), n)
}

// TestBuiltins: every function bound in a fully loaded environment x 0..2 arguments of every kind.
func TestBuiltins(t *testing.T) {
	shard, _ := strconv.Atoi(os.Getenv("VERIF_SHARD"))
	shards, _ := strconv.Atoi(os.Getenv("VERIF_SHARDS"))
	if shards <= 0 {
		shards = 1
	}
	n, i := 0, 0
	for _, b := range builtinNames() {
		argsets := [][]string{{}}
		for _, a := range argKinds {
			argsets = append(argsets, []string{a})
		}
		if os.Getenv("VERIF_TABLE_OPS") != "1" {
			for _, a := range argKinds {
				for _, a2 := range argKinds {
					argsets = append(argsets, []string{a, a2})
				}
			}
		}
		for _, as := range argsets {
			i++
			if i%shards != shard {
				continue
			}
			n++
			if !pbt.RunOne(t, P, Case{Kind: "builtin", Fn: b, Args: as}) {
				return
			}
		}
	}
	pbt.Exhaustive("every function bound in the fully loaded environment x 0..2 arguments x argument kinds", n)
}

func FuzzEvalText(f *testing.F) {
	for _, h := range heads {
		f.Add("(" + h + ")")
		f.Add("(" + h + " a (1) [b])")
	}
	for _, s := range []string{"((fn (&) 1))", "(try (throw 1) (catch))", "`(~)", "(eval)", "(defmacro m 5)", "((fn (a & b c) a) 1 2 3)", "(swap! (atom 1) 5)", "(let (a) a)", "(apply + 1)", "@5", "(with-meta 1 2)"} {
		f.Add(s)
	}
	f.Fuzz(func(t *testing.T, s string) {
		if len(s) > 400 || strings.Contains(s, "sleep") || strings.Contains(s, "readline") || strings.Contains(s, "run-fn-for") || strings.Contains(s, "range") || strings.Contains(s, "slurp") || strings.Contains(s, "load-file") {
			return
		}
		pbt.RunOne(t, P, Case{Kind: "text", Text: s})
	})
}

// TestFnValues: every way of building a function value x every way of using it.
func TestFnValues(t *testing.T) {
	n := 0
	for _, f := range fnValues {
		for _, u := range fnUses {
			for _, goast := range []bool{false, true} {
				n++
				if !pbt.RunOne(t, P, Case{Kind: "text", Text: "(let (vf " + f + ") " + u + ")", GoAST: goast}) {
					return
				}
			}
		}
	}
	pbt.Exhaustive(fmt.Sprintf("%d function values x %d uses x {read, Go-built}", len(fnValues), len(fnUses)), n)
}

// TestTryFaults: every fault in every position of a try form (body, handler tail / non-tail, finally), bare and wrapped.
func TestTryFaults(t *testing.T) {
	shard, _ := strconv.Atoi(os.Getenv("VERIF_SHARD"))
	shards, _ := strconv.Atoi(os.Getenv("VERIF_SHARDS"))
	if shards <= 0 {
		shards = 1
	}
	n, i := 0, 0
	for _, fault := range tryFaults {
		for _, f := range tryForms(fault) {
			for _, w := range tryWraps {
				i++
				if i%shards != shard {
					continue
				}
				n++
				if !pbt.RunOne(t, P, Case{Kind: "text", Text: "(do " + tryPrelude + fmt.Sprintf(w, f) + ")", GoAST: i%3 == 0}) {
					return
				}
			}
		}
	}
	pbt.Exhaustive(fmt.Sprintf("%d faults x try forms (3 bodies x 6 handlers x 6 finally clauses) x %d wrappers", len(tryFaults), len(tryWraps)), n)
}
