package c20

import (
	"context"
	"errors"
	"fmt"
	"reflect"
	"runtime"
	"strings"
	"testing"

	"github.com/jig/lisp/env"
	"github.com/jig/lisp/types"
	"pgregory.net/rapid"

	"verifharness/internal/box"
	"verifharness/internal/gen"
	"verifharness/internal/pbt"
	"verifharness/internal/val"
	nodot "verifharness/nodot/reg"
	withdot "verifharness/with.dot/reg"
)

type entry struct {
	Fn     string
	Args   []types.MalType
	CtxVal any
	HasCtx bool
	CtxNil bool
}

type pkg struct {
	name     string
	reset    func(mode string)
	entries  func() []entry
	fn       func(i int) (string, any)
	closure  func(tag string) any
	register func(e types.EnvType, fn any, override string, bounds ...int)
	sentinel error
	ctxKey   any
	n        int
}

var pkgs = map[string]*pkg{
	"nodot": {
		name: "nodot", reset: nodot.Reset, n: len(nodot.Catalogue), sentinel: nodot.Sentinel, ctxKey: nodot.CtxKey{},
		entries: func() []entry {
			out := []entry{}
			for _, e := range nodot.Entries() {
				out = append(out, entry(e))
			}
			return out
		},
		fn:      func(i int) (string, any) { return nodot.Catalogue[i].Name, nodot.Catalogue[i].Fn },
		closure: nodot.Closure, register: nodot.Register,
	},
	"dot": {
		name: "dot", reset: withdot.Reset, n: len(withdot.Catalogue), sentinel: withdot.Sentinel, ctxKey: withdot.CtxKey{},
		entries: func() []entry {
			out := []entry{}
			for _, e := range withdot.Entries() {
				out = append(out, entry(e))
			}
			return out
		},
		fn:      func(i int) (string, any) { return withdot.Catalogue[i].Name, withdot.Catalogue[i].Fn },
		closure: withdot.Closure, register: withdot.Register,
	},
}

// Case: which function, how it is registered, and the lisp arguments of the call.
type Case struct {
	Pkg      string // nodot | dot
	Fn       int    // catalogue index, -1: the closure
	Override string // "" = Call (name derived), else CallOverrideFN with this name
	Bounds   []int  // declared bounds: none, (min), (min,max)
	Mode     string // ok err valerr panic-err panic-val
	Args     []val.V
	ArgFn    []bool // argument i is a lisp function value instead of Args[i]
	// registrations of the same function (for the closure: another instance of the same literal) made
	// earlier in the process; they must not influence this one
	Prior []PriorReg `json:",omitempty"`
}

type PriorReg struct {
	Override string
	Bounds   []int
	SameEnv  bool // into the same environment (re-bound afterwards when the name is the same) instead of another one
	Call     bool // the earlier registration is also called once with the same arguments
}

var dataOpts = gen.Opts{Str: gen.StrPlain, SmallInt: true, Syms: true}

func sig(p *pkg, c Case) (name string, fn any, ft reflect.Type, hasCtx bool, fixed int, variadic bool) {
	if c.Fn < 0 {
		name, fn = "closure", p.closure("main")
	} else {
		name, fn = p.fn(c.Fn)
	}
	ft = reflect.TypeOf(fn)
	hasCtx = ft.NumIn() >= 1 && ft.In(0).Implements(reflect.TypeOf((*context.Context)(nil)).Elem())
	variadic = ft.IsVariadic()
	fixed = ft.NumIn()
	if hasCtx {
		fixed--
	}
	if variadic {
		fixed--
	}
	return
}

func genCase(t *rapid.T) Case {
	c := Case{Pkg: rapid.SampledFrom([]string{"nodot", "dot"}).Draw(t, "pkg")}
	p := pkgs[c.Pkg]
	c.Fn = gen.Uniform(t, "fn", p.n+1) - 1
	if c.Fn < 0 || gen.Uniform(t, "entry", 2) == 0 {
		c.Override = rapid.SampledFrom([]string{"over!", "my-fn", "x?"}).Draw(t, "override")
	}
	_, _, _, _, fixed, variadic := sig(p, c)
	// declared bounds: only legal for variadic functions; sometimes illegal on purpose
	switch b := gen.Uniform(t, "bounds", 8); {
	case variadic && b <= 2:
		c.Bounds = []int{fixed + gen.Uniform(t, "min", 3)}
	case variadic && b <= 5:
		min := fixed + gen.Uniform(t, "min", 3)
		c.Bounds = []int{min, min + gen.Uniform(t, "span", 3)}
	case b == 6 && gen.Uniform(t, "illegal", 3) == 0:
		c.Bounds = rapid.SampledFrom([][]int{{2, 1}, {-1}, {0, -1}, {1}, {1, 2}}).Draw(t, "illegalbounds")
	}
	c.Mode = rapid.SampledFrom([]string{"ok", "ok", "ok", "err", "valerr", "panic-err", "panic-val", "panic-runtime", "panic-map", "panic-int"}).Draw(t, "mode")
	// argument count around the bounds
	lo, hi := fixed, fixed
	if variadic {
		hi = fixed + 3
	}
	if len(c.Bounds) >= 1 {
		lo = c.Bounds[0]
		hi = lo + 3
	}
	if len(c.Bounds) == 2 {
		hi = c.Bounds[1]
	}
	if hi < lo {
		hi = lo
	}
	n := lo - 1 + gen.Uniform(t, "nargs", hi-lo+4)
	if n < 0 {
		n = 0
	}
	if gen.Chance(t, "hasprior", 3) {
		for k, m := 0, 1+gen.Uniform(t, "nprior", 2); k < m; k++ {
			pr := PriorReg{Override: c.Override, SameEnv: gen.Chance(t, "priorsameenv", 3), Call: gen.Chance(t, "priorcall", 2)}
			if c.Fn < 0 || gen.Chance(t, "priorname", 3) {
				pr.Override = rapid.SampledFrom([]string{"over!", "my-fn", "x?"}).Draw(t, "prioroverride")
			}
			if variadic {
				switch gen.Uniform(t, "priorbounds", 3) {
				case 0:
					pr.Bounds = []int{fixed + gen.Uniform(t, "pmin", 3)}
				case 1:
					min := fixed + gen.Uniform(t, "pmin", 3)
					pr.Bounds = []int{min, min + gen.Uniform(t, "pspan", 3)}
				}
			}
			c.Prior = append(c.Prior, pr)
		}
	}
	for i := 0; i < n; i++ {
		switch gen.Uniform(t, "argkind", 10) {
		case 0:
			c.Args = append(c.Args, val.N())
			c.ArgFn = append(c.ArgFn, false)
		case 1:
			c.Args = append(c.Args, val.N())
			c.ArgFn = append(c.ArgFn, true)
		case 2, 3:
			c.Args = append(c.Args, val.I(gen.Uniform(t, "ai", 9)))
			c.ArgFn = append(c.ArgFn, false)
		case 4:
			c.Args = append(c.Args, val.S(gen.Str(t, "as", dataOpts)))
			c.ArgFn = append(c.ArgFn, false)
		case 5:
			c.Args = append(c.Args, val.B(gen.Uniform(t, "ab", 2) == 0))
			c.ArgFn = append(c.ArgFn, false)
		default:
			c.Args = append(c.Args, gen.Data(t, "ad", 2, dataOpts))
			c.ArgFn = append(c.ArgFn, false)
		}
	}
	return c
}

func dynType(v val.V, isFn bool) reflect.Type {
	if isFn {
		return reflect.TypeOf(types.MalFunc{})
	}
	switch v.K {
	case val.Nil:
		return nil
	case val.Bool:
		return reflect.TypeOf(true)
	case val.Int:
		return reflect.TypeOf(0)
	case val.Str, val.Kw:
		return reflect.TypeOf("")
	case val.Sym:
		return reflect.TypeOf(types.Symbol{})
	case val.List:
		return reflect.TypeOf(types.List{})
	case val.Vec:
		return reflect.TypeOf(types.Vector{})
	case val.Map:
		return reflect.TypeOf(types.HashMap{})
	case val.Set:
		return reflect.TypeOf(types.Set{})
	}
	return nil
}

var malTypeT = reflect.TypeOf((*types.MalType)(nil)).Elem()

func lispName(goName string) string {
	return strings.ReplaceAll(strings.ToLower(goName), "_", "-")
}

func check(c Case) pbt.Verdict {
	box.Silence()
	p := pkgs[c.Pkg]
	goName, fn, ft, hasCtx, fixed, variadic := sig(p, c)
	v := pbt.Verdict{Key: fmt.Sprintf("%s|%d|%s|%v|%s|%d|%v|%v", c.Pkg, c.Fn, c.Override, c.Bounds, c.Mode, len(c.Args), argKinds(c), c.Prior)}
	if len(c.Prior) > 0 {
		v.Labels = append(v.Labels, "after-earlier-registrations")
	}
	e := env.NewEnv()

	// --- registration ---
	legal := true
	if len(c.Bounds) > 0 && !variadic {
		legal = false
	}
	if len(c.Bounds) == 2 && c.Bounds[0] > c.Bounds[1] {
		legal = false
	}
	for _, b := range c.Bounds {
		if b < 0 {
			legal = false
		}
	}
	if c.Fn < 0 && c.Override == "" {
		c.Override = "closure!"
	}
	name := c.Override
	if name == "" {
		name = lispName(goName)
	}
	// the call, built from Go without positions
	mkForm := func(head string) []types.MalType {
		form := []types.MalType{types.Symbol{Val: head}}
		for i, a := range c.Args {
			if c.ArgFn[i] {
				form = append(form, types.List{Val: []types.MalType{types.Symbol{Val: "fn"}, types.List{Val: []types.MalType{types.Symbol{Val: "x"}}}, types.Symbol{Val: "x"}}})
				continue
			}
			switch a.K {
			case val.Sym, val.List, val.Vec, val.Map:
				form = append(form, types.List{Val: []types.MalType{types.Symbol{Val: "quote"}, val.To(a)}})
			default:
				form = append(form, val.To(a))
			}
		}
		return form
	}
	for _, pr := range c.Prior {
		pe := types.EnvType(e)
		if !pr.SameEnv {
			pe = env.NewEnv()
		}
		pfn := fn
		if c.Fn < 0 {
			pfn = p.closure("earlier")
			if pr.Override == "" {
				pr.Override = "closure!"
			}
		}
		pname := pr.Override
		if pname == "" {
			pname = lispName(goName)
		}
		func() {
			defer func() { recover() }()
			p.register(pe, pfn, pr.Override, pr.Bounds...)
			if pr.Call {
				p.reset("ok")
				box.Eval(context.Background(), types.List{Val: mkForm(pname)}, pe)
			}
		}()
	}
	var regPanic any
	func() {
		defer func() { regPanic = recover() }()
		p.register(e, fn, c.Override, c.Bounds...)
	}()
	if !legal {
		// documented: registration panics; the contract only asks that nothing callable was registered wrongly
		v.Labels = append(v.Labels, "registration:illegal-bounds")
		if regPanic == nil {
			return pbt.Failf("illegal-bounds-accepted", "registering %s with bounds %v did not panic", goName, c.Bounds)
		}
		return v
	}
	if regPanic != nil {
		return pbt.Failf("registration-panic:"+c.Pkg+":"+map[bool]string{true: "override", false: "call"}[c.Override != ""],
			"registering %s (package %s, override=%q, bounds %v) panicked: %v", goName, c.Pkg, c.Override, c.Bounds, regPanic)
	}
	bound, ok := box.Lookup(e, name)
	if !ok {
		return pbt.Failf("not-registered-under-name", "%s was not registered under %q", goName, name)
	}
	if _, isF := bound.(types.Func); !isF {
		return pbt.Failf("not-registered-under-name", "%q is bound to %T", name, bound)
	}

	// --- the contract table ---
	n := len(c.Args)
	lo, hi := fixed, fixed
	if variadic {
		hi = 1 << 30
	}
	if len(c.Bounds) >= 1 {
		lo, hi = c.Bounds[0], 1<<30
	}
	if len(c.Bounds) == 2 {
		hi = c.Bounds[1]
	}
	inBounds := n >= lo && n <= hi && n >= fixed
	assignable := true
	off := 0
	if hasCtx {
		off = 1
	}
	for i := 0; i < n && inBounds; i++ {
		var pt reflect.Type
		if i < fixed {
			pt = ft.In(off + i)
		} else if variadic {
			pt = ft.In(ft.NumIn() - 1).Elem()
		} else {
			assignable = false
			break
		}
		dt := dynType(c.Args[i], c.ArgFn[i])
		if dt == nil { // lisp nil: the zero MalType interface value
			if pt != malTypeT {
				assignable = false
			}
		} else if !dt.AssignableTo(pt) {
			assignable = false
		}
	}
	wantEntered := inBounds && assignable

	form := mkForm(name)
	type planted struct{ s string }
	// the embedder evaluates under a context type of its own (a struct embedding context.Context)
	mkCtx := func(inner context.Context) context.Context {
		if c.Pkg == "dot" {
			return withdot.AppCtx{Context: inner, User: "u"}
		}
		return nodot.AppCtx{Context: inner, User: "u"}
	}
	ctx := mkCtx(context.WithValue(context.Background(), p.ctxKey, planted{"planted"}))
	p.reset(c.Mode)
	r := box.Eval(ctx, types.List{Val: form}, e)
	ents := p.entries()
	desc := fmt.Sprintf("%s %s (package %s, registered as %q, bounds %v, mode %s) called with %d arguments %v", goName, ft, c.Pkg, name, c.Bounds, c.Mode, n, argKinds(c))
	if len(c.Prior) > 0 {
		desc += fmt.Sprintf(" after earlier registrations %+v", c.Prior)
	}
	if r.Panicked {
		return pbt.Failf("panic:"+r.PanicSite, "%s: EVAL panicked: %v", desc, r.PanicVal)
	}
	if !wantEntered {
		if len(ents) > 0 {
			return pbt.Failf("entered-outside-contract", "%s: the function was invoked (with %v) although count/type are outside its contract", desc, ents[0].Args)
		}
		if r.Err == nil {
			return pbt.Failf("no-error-outside-contract", "%s: no error reported, result %s", desc, val.Canon(val.From(r.Val)))
		}
	} else {
		if len(ents) != 1 {
			return pbt.Failf("not-entered-inside-contract", "%s: expected exactly one invocation, saw %d (error: %v)", desc, len(ents), r.Err)
		}
		en := ents[0]
		if c.Fn < 0 && en.Fn != "closure:main" {
			return pbt.Failf("wrong-function-invoked", "%s: the call reached %s, another instance of the function literal registered earlier", desc, en.Fn)
		}
		if c.Fn >= 0 && en.Fn != goName {
			return pbt.Failf("wrong-function-invoked", "%s: the call reached %s", desc, en.Fn)
		}
		if len(en.Args) != n {
			return pbt.Failf("wrong-arguments", "%s: received %d arguments", desc, len(en.Args))
		}
		for i := range c.Args {
			if c.ArgFn[i] {
				if _, isF := en.Args[i].(types.MalFunc); !isF {
					return pbt.Failf("wrong-arguments", "%s: argument %d arrived as %T", desc, i, en.Args[i])
				}
				continue
			}
			if c.Args[i].K == val.Nil && en.Args[i] != nil {
				return pbt.Failf("wrong-arguments", "%s: nil arrived as %T %v", desc, en.Args[i], en.Args[i])
			}
			if got := val.From(en.Args[i]); !val.Eq(got, c.Args[i]) {
				return pbt.Failf("wrong-arguments", "%s: argument %d is %s, arrived as %s", desc, i, val.Canon(c.Args[i]), val.Canon(got))
			}
		}
		if en.HasCtx {
			if en.CtxNil {
				return pbt.Failf("context-not-injected", "%s: the function received a nil context", desc)
			}
			if pv, ok := en.CtxVal.(planted); !ok || pv.s != "planted" {
				return pbt.Failf("context-not-injected", "%s: the context the function received is not the one given to EVAL", desc)
			}
		}
		// result mapping
		nout := ft.NumOut()
		mode := c.Mode
		switch {
		case mode == "panic-err":
			if r.Err == nil || !errors.Is(r.Err, p.sentinel) {
				return pbt.Failf("panic-not-wrapped", "%s: panic(error) must become an error wrapping the original; got value=%v err=%v", desc, r.Val, r.Err)
			}
		case mode == "panic-runtime":
			var re runtime.Error
			if r.Err == nil || !errors.As(r.Err, &re) {
				return pbt.Failf("panic-not-wrapped", "%s: a runtime panic must become an error that still wraps the original runtime.Error; got value=%v err=%v", desc, r.Val, r.Err)
			}
		case mode == "panic-map" || mode == "panic-int":
			ev, has := box.ErrorValue(r.Err)
			want := val.I(42)
			if mode == "panic-map" {
				want = val.M(map[string]val.V{val.KwMark + "code": val.I(42)})
			}
			if r.Err == nil || !has || !val.Eq(val.From(ev), want) {
				return pbt.Failf("panic-value-lost", "%s: panic(lisp value) must become an error carrying that value; got value=%v err=%v", desc, r.Val, r.Err)
			}
		case mode == "panic-val":
			ev, has := box.ErrorValue(r.Err)
			if r.Err == nil || !has || ev != "verif-panic-value" {
				return pbt.Failf("panic-value-lost", "%s: panic(value) must become an error carrying the value; got value=%v err=%v", desc, r.Val, r.Err)
			}
		case (mode == "err" || mode == "valerr") && nout >= 1:
			if r.Err == nil || !errors.Is(r.Err, p.sentinel) {
				return pbt.Failf("error-result-lost", "%s: an error result must become a lisp error wrapping it; got value=%v err=%v", desc, r.Val, r.Err)
			}
		default: // ok (or err on a function without results)
			if r.Err != nil {
				return pbt.Failf("unexpected-error", "%s: unexpected error %v", desc, r.Err)
			}
			if nout <= 1 && r.Val != nil {
				return pbt.Failf("result-mapping", "%s: no value result => nil expected, got %v", desc, r.Val)
			}
			if nout == 2 && r.Val == nil {
				return pbt.Failf("result-mapping", "%s: the value result was dropped", desc)
			}
		}
	}
	// a second call of the same registration under another context (derived from the same parent, hence with the
	// same Done channel) sees THAT context
	if wantEntered && hasCtx {
		p.reset("ok")
		ctxB := mkCtx(context.WithValue(context.Background(), p.ctxKey, planted{"planted-for-the-second-call"}))
		rb := box.Eval(ctxB, types.List{Val: form}, e)
		eb := p.entries()
		if rb.Panicked {
			return pbt.Failf("panic:"+rb.PanicSite, "%s: second call panicked: %v", desc, rb.PanicVal)
		}
		if len(eb) != 1 {
			return pbt.Failf("not-entered-inside-contract", "%s: second call under another context: %d invocations (error: %v)", desc, len(eb), rb.Err)
		}
		if pv, ok := eb[0].CtxVal.(planted); !ok || pv.s != "planted-for-the-second-call" {
			return pbt.Failf("context-not-injected", "%s: on a second call under another context the function received %v, not the context given to that EVAL", desc, eb[0].CtxVal)
		}
		p.reset(c.Mode)
	}
	// every error is catchable by try/catch
	if r.Err != nil {
		p.reset(c.Mode)
		caught := types.List{Val: []types.MalType{types.Symbol{Val: "try"}, types.List{Val: form},
			types.List{Val: []types.MalType{types.Symbol{Val: "catch"}, types.Symbol{Val: "e__"}, "ʞcaught__"}}}}
		r2 := box.Eval(ctx, caught, e)
		if r2.Panicked || r2.Err != nil || r2.Val != "ʞcaught__" {
			return pbt.Failf("error-not-catchable", "%s: (try … (catch e :caught)) gives value=%v err=%v panic=%v", desc, r2.Val, r2.Err, r2.PanicVal)
		}
	}
	v.Labels = append(v.Labels, fmt.Sprintf("entered:%v", wantEntered), "mode:"+c.Mode, "pkg:"+c.Pkg, "fn:"+goName)
	if !inBounds {
		v.Labels = append(v.Labels, "rejected:count")
	} else if !assignable {
		v.Labels = append(v.Labels, "rejected:type")
	}
	atBound := n == lo-1 || n == lo || n == hi || n == hi+1
	hasNil := false
	for i, a := range c.Args {
		if a.K == val.Nil && !c.ArgFn[i] {
			hasNil = true
		}
	}
	v.NonTrivial = atBound || hasNil || (inBounds && !assignable) || strings.HasPrefix(c.Mode, "panic")
	return v
}

func argKinds(c Case) []string {
	out := []string{}
	for i, a := range c.Args {
		if c.ArgFn[i] {
			out = append(out, "fn")
		} else {
			out = append(out, a.K.String())
		}
	}
	return out
}

var P = pbt.Prop[Case]{
	ID:    "C20",
	Gen:   genCase,
	Check: check,
	Show: func(c Case) any {
		name, _, ft, _, _, _ := sig(pkgs[c.Pkg], c)
		return map[string]any{"function": name + " " + ft.String(), "package": c.Pkg, "override": c.Override, "bounds": c.Bounds, "mode": c.Mode, "args": argKinds(c)}
	},
}

func TestMain(m *testing.M)   { pbt.Main(m) }
func TestProp(t *testing.T)   { pbt.Run(t, P) }
func TestCorpus(t *testing.T) { pbt.Corpus(t, P) }
func TestReplay(t *testing.T) { pbt.Replay(t, P) }

// TestTable enumerates the finite part completely: package x function x entry point x
// declared bounds x argument count 0..max+2 (arguments of a kind every parameter accepts
// where one exists), mode ok.
func TestTable(t *testing.T) {
	n := 0
	for _, pk := range []string{"nodot", "dot"} {
		p := pkgs[pk]
		for fi := -1; fi < p.n; fi++ {
			for _, override := range []string{"", "over!"} {
				if fi < 0 && override == "" {
					continue
				}
				base := Case{Pkg: pk, Fn: fi, Override: override}
				_, _, _, _, fixed, variadic := sig(p, base)
				boundsList := [][]int{nil}
				if variadic {
					boundsList = append(boundsList, []int{fixed}, []int{fixed + 1}, []int{fixed, fixed}, []int{fixed, fixed + 2}, []int{fixed + 1, fixed + 2})
				} else {
					boundsList = append(boundsList, []int{1}, []int{0, 1})
				}
				boundsList = append(boundsList, []int{2, 1}, []int{-1})
				for _, b := range boundsList {
					max := fixed + 2
					if len(b) == 2 && b[1] > 0 {
						max = b[1] + 2
					} else if len(b) == 1 && b[0] > 0 {
						max = b[0] + 2
					}
					for cnt := 0; cnt <= max; cnt++ {
						for _, argv := range []val.V{val.I(1), val.S("s"), val.N()} {
							c := base
							c.Bounds = b
							c.Mode = "ok"
							for i := 0; i < cnt; i++ {
								c.Args = append(c.Args, argv)
								c.ArgFn = append(c.ArgFn, false)
							}
							// first after the function was registered elsewhere under the neighbouring bounds (self-contained
							// if registrations influence each other), then alone
							for _, other := range boundsList[:len(boundsList)-2] {
								if fmt.Sprint(other) == fmt.Sprint(b) {
									continue
								}
								c2 := c
								c2.Prior = []PriorReg{{Override: override, Bounds: other, Call: cnt%2 == 0}}
								n++
								if !pbt.RunOne(t, P, c2) {
									return
								}
								break
							}
							n++
							if !pbt.RunOne(t, P, c) {
								return
							}
						}
					}
				}
			}
		}
	}
	pbt.Exhaustive("package x function x entry point x declared bounds x argument count 0..max+2 x {all ints, all strings, all nil}", n)
}
