package c14

import (
	"context"
	"fmt"
	"testing"

	"github.com/jig/lisp/types"
	"pgregory.net/rapid"

	"verifharness/internal/box"
	"verifharness/internal/gen"
	"verifharness/internal/pbt"
	"verifharness/internal/val"
)

// Case: three data values, each with an expression that builds it along some
// construction path, and how b was derived from a and c from b.
type Case struct {
	A, B, C      val.V
	EA, EB, EC   string
	RelAB, RelBC string
}

var opts = gen.Opts{Str: gen.StrHot, Syms: true, NoKwMark: true, NoNUL: true}

func variant(t *rapid.T, label string, a val.V) (val.V, string) {
	switch c := rapid.IntRange(0, 9).Draw(t, label+"rel"); {
	case c <= 2:
		return a, "rebuilt"
	case c <= 6:
		return gen.Mutate(t, label+"mut", a, opts), "mutant"
	case c <= 7:
		return flip(a), "seqflip"
	default:
		return gen.Data(t, label+"ind", 3, opts), "indep"
	}
}

// flip turns every list into a vector and vice versa (equal under =).
func flip(v val.V) val.V {
	switch v.K {
	case val.List, val.Vec:
		out := val.V{K: val.List, L: make([]val.V, len(v.L))}
		if v.K == val.List {
			out.K = val.Vec
		}
		for i, e := range v.L {
			out.L[i] = flip(e)
		}
		return out
	case val.Map:
		m := map[string]val.V{}
		for k, e := range v.M {
			m[k] = flip(e)
		}
		return val.M(m)
	}
	return v
}

// derived: b is computed from the *bound value* of a (name va / vb) by a builtin that may
// share storage with it (prefixes, extensions, views)
func derived(t *rapid.T, label, name string, a val.V) (val.V, string, bool) {
	if a.K != val.List && a.K != val.Vec {
		return val.V{}, "", false
	}
	n := len(a.L)
	cp := func(xs []val.V) []val.V { return append([]val.V{}, xs...) }
	switch rapid.IntRange(0, 7).Draw(t, label+"dk") {
	case 0:
		if a.K == val.Vec {
			k := rapid.IntRange(0, n).Draw(t, label+"sv")
			return val.V{K: val.Vec, L: cp(a.L[:k])}, fmt.Sprintf("(subvec %s 0 %d)", name, k), true
		}
	case 1:
		if a.K == val.Vec {
			return val.V{K: val.Vec, L: append(cp(a.L), val.I(1))}, "(conj " + name + " 1)", true
		}
	case 2:
		k := rapid.IntRange(0, n+1).Draw(t, label+"tk")
		if k > n {
			k = n
		}
		return val.V{K: val.List, L: cp(a.L[:k])}, fmt.Sprintf("(take %d %s)", k, name), true
	case 3:
		if n > 0 {
			return val.V{K: val.List, L: cp(a.L[1:])}, "(rest " + name + ")", true
		}
	case 4:
		return val.V{K: val.List, L: append(cp(a.L), val.N())}, "(concat " + name + " (list nil))", true
	case 5:
		if n > 0 {
			return val.V{K: val.List, L: cp(a.L)}, "(seq " + name + ")", true
		}
	case 6:
		k := rapid.IntRange(0, n).Draw(t, label+"dl")
		return val.V{K: val.List, L: cp(a.L[:n-k])}, fmt.Sprintf("(drop-last %d %s)", k, name), true
	}
	return val.V{K: val.Vec, L: cp(a.L)}, "(vec " + name + ")", true
}

func genCase(t *rapid.T) Case {
	var c Case
	c.A = gen.Data(t, "a", 4, opts)
	c.EA = gen.BuildExpr(t, "ea", c.A)
	if b, eb, ok := derived(t, "db", "va", c.A); ok && rapid.IntRange(0, 3).Draw(t, "useder") == 0 {
		c.B, c.EB, c.RelAB = b, eb, "derived"
	} else {
		c.B, c.RelAB = variant(t, "b", c.A)
		c.EB = gen.BuildExpr(t, "eb", c.B)
	}
	if cc, ec, ok := derived(t, "dc", "vb", c.B); ok && rapid.IntRange(0, 3).Draw(t, "usederc") == 0 {
		c.C, c.EC, c.RelBC = cc, ec, "derived"
	} else {
		c.C, c.RelBC = variant(t, "c", c.B)
		c.EC = gen.BuildExpr(t, "ec", c.C)
	}
	return c
}

func diffClass(a, b val.V) string {
	if a.K != b.K {
		ka, kb := a.K, b.K
		seq := func(k val.Kind) bool { return k == val.List || k == val.Vec }
		if !(seq(ka) && seq(kb)) {
			return "kind:" + ka.String() + "/" + kb.String()
		}
	}
	switch a.K {
	case val.List, val.Vec:
		if len(a.L) != len(b.L) {
			return "seq-length"
		}
		for i := range a.L {
			if !val.EqLisp(a.L[i], b.L[i]) {
				return "in-seq>" + diffClass(a.L[i], b.L[i])
			}
		}
	case val.Map:
		if len(a.M) != len(b.M) {
			return "map-size"
		}
		for k, av := range a.M {
			bv, ok := b.M[k]
			if !ok {
				if av.K == val.Nil {
					return "map-key-absent-vs-nil"
				}
				return "map-key-absent"
			}
			if !val.EqLisp(av, bv) {
				return "in-map>" + diffClass(av, bv)
			}
		}
	case val.Set:
		return "set-members"
	default:
		return "scalar:" + a.K.String()
	}
	return "same"
}

func check(c Case) pbt.Verdict {
	box.Silence()
	var v pbt.Verdict
	e := box.CoreEnv()
	ctx := context.Background()
	vals := []val.V{c.A, c.B, c.C}
	names := []string{"va", "vb", "vc"}
	for i, src := range []string{c.EA, c.EB, c.EC} {
		r := box.ReadEval(ctx, src, e)
		if r.Panicked || r.Err != nil {
			return pbt.Verdict{Excluded: "builder-failed", Labels: []string{"builder-failed"}}
		}
		if !val.Eq(val.From(r.Val), vals[i]) {
			return pbt.Verdict{Excluded: "builder-mismatch", Labels: []string{"builder-mismatch"}}
		}
		e.Set(types.Symbol{Val: names[i]}, r.Val)
		// the same value built from Go without the reader (L-notation style)
		e.Set(types.Symbol{Val: "g" + names[i]}, val.To(vals[i]))
		// and with every empty collection as its Go zero value
		e.Set(types.Symbol{Val: "z" + names[i]}, val.ToZero(vals[i]))
	}
	eqv := func(x, y string) (bool, error) {
		r := box.ReadEval(ctx, "(= "+x+" "+y+")", e)
		if r.Panicked {
			return false, fmt.Errorf("panic %v", r.PanicVal)
		}
		if r.Err != nil {
			return false, r.Err
		}
		b, ok := r.Val.(bool)
		if !ok {
			return false, fmt.Errorf("= returned %T", r.Val)
		}
		return b, nil
	}
	type pair struct{ i, j int }
	for _, p := range []pair{{0, 1}, {1, 0}, {1, 2}, {2, 1}, {0, 2}, {2, 0}, {0, 0}, {1, 1}, {2, 2}} {
		want := val.EqLisp(vals[p.i], vals[p.j])
		for _, form := range [][2]string{{names[p.i], names[p.j]}, {names[p.i], "g" + names[p.j]}, {"g" + names[p.i], names[p.j]},
			{names[p.i], "z" + names[p.j]}, {"z" + names[p.i], names[p.j]}, {"z" + names[p.i], "g" + names[p.j]}} {
			got, err := eqv(form[0], form[1])
			if err != nil {
				return pbt.Failf("eq-error", "(= %s %s) failed: %v  [%s vs %s]", form[0], form[1], err, val.Canon(vals[p.i]), val.Canon(vals[p.j]))
			}
			if got != want {
				dir := "true-but-different"
				if want {
					dir = "false-but-equal"
				}
				return pbt.Failf(dir+":"+lastSeg(diffClass(vals[p.i], vals[p.j])), "(= %s %s) is %v, structural equality says %v", val.Canon(vals[p.i]), val.Canon(vals[p.j]), got, want)
			}
		}
	}
	v.Labels = []string{"ab:" + c.RelAB, "bc:" + c.RelBC}
	if val.EqLisp(c.A, c.B) {
		v.Labels = append(v.Labels, "a=b")
	}
	nt := func(rel string, x val.V) bool {
		return (rel == "rebuilt" || rel == "mutant" || rel == "seqflip" || rel == "derived") && val.Depth(x) >= 1
	}
	v.NonTrivial = nt(c.RelAB, c.A) || nt(c.RelBC, c.B)
	v.Key = val.Canon(c.A) + "|" + val.Canon(c.B) + "|" + val.Canon(c.C) + "|" + c.EA + c.EB + c.EC
	return v
}

var P = pbt.Prop[Case]{
	ID:    "C14",
	Rule:  "triples (a,b,c): a random nested data value, b derived from a and c from b as {rebuilt along another construction path | one-place near-equal mutant | list<->vector flip | independent}; every ordered pair compared with (= x y) through EVAL (reader-built and Go-built operands) against the harness's structural equality; non-trivial = a pair that is equal-but-differently-built or differs in exactly one place, at nesting depth >= 1; distinct by canonical triple + construction expressions",
	Gen:   genCase,
	Check: check,
	Show: func(c Case) any {
		return map[string]string{"a": c.EA, "b": c.EB, "c": c.EC, "ab": c.RelAB, "bc": c.RelBC}
	},
}

func TestMain(m *testing.M)   { pbt.Main(m) }
func TestProp(t *testing.T)   { pbt.Run(t, P) }
func TestCorpus(t *testing.T) { pbt.Corpus(t, P) }
func TestReplay(t *testing.T) { pbt.Replay(t, P) }

func lastSeg(s string) string {
	for i := len(s) - 1; i >= 0; i-- {
		if s[i] == '>' {
			return s[i+1:]
		}
	}
	return s
}
