package c06

import (
	"context"
	"fmt"
	"strings"
	"testing"
	"unicode/utf8"

	"github.com/jig/lisp"
	"github.com/jig/lisp/types"
	"pgregory.net/rapid"

	"verifharness/internal/box"
	"verifharness/internal/gen"
	"verifharness/internal/pbt"
	"verifharness/internal/val"
)

// Case: either a data value (Mode "value") or a source text (Mode "text").
type Case struct {
	Mode string
	V    val.V
	In   []byte `json:",omitempty"`
	Text string `json:",omitempty"` // hand-written corpus cases
}

var opts = gen.Opts{Str: gen.StrFull, Syms: true}

func genCase(t *rapid.T) Case {
	if rapid.IntRange(0, 3).Draw(t, "mode") == 0 {
		return Case{Mode: "text", In: []byte(gen.Soup(t, "soup"))}
	}
	return Case{Mode: "value", V: gen.Data(t, "v", 5, opts)}
}

// string classes of the recorded findings: computed from the failing value
func stringsOf(v val.V, f func(s string)) {
	switch v.K {
	case val.Str, val.Sym, val.Kw:
		f(v.S)
	case val.List, val.Vec:
		for _, e := range v.L {
			stringsOf(e, f)
		}
	case val.Map:
		for k, e := range v.M {
			f(k)
			stringsOf(e, f)
		}
	case val.Set:
		for _, k := range v.St {
			f(k)
		}
	}
}

func classify(v val.V) string {
	nul, hot := false, ""
	stringsOf(v, func(s string) {
		if strings.ContainsRune(s, 0) {
			nul = true
		}
		for _, r := range s {
			switch {
			case r == 0x29e:
				hot = "U+029E"
			case r == '¬' && hot == "":
				hot = "raw-quote"
			case r == '\\' && hot == "":
				hot = "backslash"
			case (r == '\t' || r == '\r' || r < 0x20 && r != '\n') && hot == "":
				hot = "control-char"
			case r > 0x7f && hot == "":
				hot = "non-ascii"
			}
		}
	})
	if nul {
		return "string-contains-U+0000"
	}
	if hot != "" {
		return "string-with-" + hot
	}
	return "other"
}

func hasFloat(x types.MalType) bool {
	switch t := x.(type) {
	case float32, float64:
		return true
	case types.List:
		for _, e := range t.Val {
			if hasFloat(e) {
				return true
			}
		}
	case types.Vector:
		for _, e := range t.Val {
			if hasFloat(e) {
				return true
			}
		}
	case types.HashMap:
		for _, e := range t.Val {
			if hasFloat(e) {
				return true
			}
		}
	}
	return false
}

func hasOther(v val.V) bool {
	switch v.K {
	case val.Other, val.Fn, val.GoErr, val.Atom:
		return true
	case val.List, val.Vec:
		for _, e := range v.L {
			if hasOther(e) {
				return true
			}
		}
	case val.Map:
		for _, e := range v.M {
			if hasOther(e) {
				return true
			}
		}
	}
	return false
}

var sharedEnv types.EnvType

func check(c Case) pbt.Verdict {
	box.Silence()
	if c.Mode == "" {
		c.Mode = "text"
	}
	if c.Mode == "text" {
		if c.In == nil {
			c.In = []byte(c.Text)
		}
		r := box.Guard(func() (types.MalType, error) { return lisp.READ(string(c.In), nil, nil) })
		if r.Panicked {
			return pbt.Verdict{Excluded: "read-panics(C05)"}
		}
		if r.Err != nil {
			return pbt.Verdict{Labels: []string{"text:rejected"}, Key: "t\x00" + string(c.In)}
		}
		if hasFloat(r.Val) {
			return pbt.Verdict{Excluded: "float-literal"}
		}
		v1 := val.From(r.Val)
		if hasOther(v1) {
			return pbt.Verdict{Excluded: "non-data-value"}
		}
		printed := lisp.PRINT(r.Val)
		r2 := box.Guard(func() (types.MalType, error) { return lisp.READ(printed, nil, nil) })
		if r2.Panicked || r2.Err != nil {
			return pbt.Failf("text:"+classify(v1), "text %q reads as %s, prints as %q, which does not read back: %v %v", c.In, val.Canon(v1), printed, r2.Err, r2.PanicVal)
		}
		if v2 := val.From(r2.Val); !val.Eq(v1, v2) {
			return pbt.Failf("text:"+classify(v1), "text %q reads as %s, prints as %q, which reads back as %s", c.In, val.Canon(v1), printed, val.Canon(v2))
		}
		return pbt.Verdict{Labels: []string{"text:accepted"}, NonTrivial: val.Depth(v1) >= 1, Key: "t\x00" + string(c.In)}
	}

	// value mode
	x := val.To(c.V)
	printed := lisp.PRINT(x)
	r := box.Guard(func() (types.MalType, error) { return lisp.READ(printed, nil, nil) })
	if r.Panicked || r.Err != nil {
		return pbt.Failf(classify(c.V), "%s prints as %q, which does not read: %v %v", val.Canon(c.V), printed, r.Err, r.PanicVal)
	}
	if got := val.From(r.Val); !val.Eq(got, c.V) {
		return pbt.Failf(classify(c.V), "%s prints as %q, which reads back as %s", val.Canon(c.V), printed, val.Canon(got))
	}
	// the same through the interpreter: (read-string (pr-str x))
	if sharedEnv == nil {
		sharedEnv = box.CoreEnv()
	}
	sharedEnv.Set(types.Symbol{Val: "verif-x"}, x)
	r = box.ReadEval(context.Background(), "(read-string (pr-str verif-x))", sharedEnv)
	if r.Panicked || r.Err != nil {
		return pbt.Failf("read-string:"+classify(c.V), "(read-string (pr-str x)) fails for x=%s: %v %v", val.Canon(c.V), r.Err, r.PanicVal)
	}
	if got := val.From(r.Val); !val.Eq(got, c.V) {
		return pbt.Failf("read-string:"+classify(c.V), "(read-string (pr-str x)) gives %s for x=%s", val.Canon(got), val.Canon(c.V))
	}
	hot := false
	stringsOf(c.V, func(s string) {
		if strings.ContainsAny(s, "\"\\\n\r\t¬{};$()[]~@^'`:#«»") || !utf8.ValidString(s) || strings.ContainsRune(s, 0x29e) {
			hot = true
		}
		for _, r := range s {
			if r > 0x7f {
				hot = true
			}
		}
	})
	v := pbt.Verdict{Key: "v\x00" + val.Canon(c.V), Labels: []string{"value:class:" + classify(c.V)}}
	if strings.Contains(printed, "¬") {
		v.Labels = append(v.Labels, "value:raw-form-used")
	}
	v.NonTrivial = hot || val.Depth(c.V) >= 2
	_ = fmt.Sprint
	return v
}

var P = pbt.Prop[Case]{
	ID:    "C06",
	Gen:   genCase,
	Check: check,
	Show: func(c Case) any {
		if c.Mode == "text" {
			return map[string]string{"text": fmt.Sprintf("%q", c.In)}
		}
		return map[string]string{"value": val.Canon(c.V)}
	},
}

func TestMain(m *testing.M)   { pbt.Main(m) }
func TestProp(t *testing.T)   { pbt.Run(t, P) }
func TestCorpus(t *testing.T) { pbt.Corpus(t, P) }
func TestReplay(t *testing.T) { pbt.Replay(t, P) }

func FuzzTextRoundTrip(f *testing.F) {
	for _, s := range []string{"(+ 1 2)", "{:a \"x\\ny\" \"k\" [1 2]}", "#{:a \"b\"}", "\"a\\\\b\"", "¬{\"k\": \"¬¬\"}¬", "'(a . b)", "^{:m 1} [x]", "`(~a ~@b)", "0x1F", "-0", ":", "(: :a-b ::)", "\"ʞ\"", "\"{\"", "{\"\" 1}"} {
		f.Add([]byte(s))
	}
	f.Fuzz(func(t *testing.T, data []byte) {
		if len(data) > 1<<14 {
			return
		}
		pbt.RunOne(t, P, Case{Mode: "text", In: data})
	})
}

func FuzzStringRoundTrip(f *testing.F) {
	for _, s := range []string{"", "a", "{\"k\": 1}", "{\"a\n\"}", "a\\", "\"", "¬", "¬¬", "\\n", "\r\t", "aʞb", "{\"¬\"}", "{\"}"} {
		f.Add(s, true)
	}
	f.Fuzz(func(t *testing.T, s string, asKey bool) {
		if !utf8.ValidString(s) || strings.HasPrefix(s, val.KwMark) || len(s) > 1<<12 {
			return
		}
		v := val.Vc(val.S(s))
		if asKey {
			v = val.M(map[string]val.V{s: val.S(s)})
		}
		pbt.RunOne(t, P, Case{Mode: "value", V: v})
	})
}
