package c02

import (
	"context"
	"fmt"
	"strings"
	"testing"
	"time"

	"github.com/jig/lisp/types"
	"pgregory.net/rapid"

	"verifharness/internal/box"
	"verifharness/internal/gen"
	"verifharness/internal/pbt"
	"verifharness/internal/val"
)

// Op: one step of a history. It is evaluated as (def Name Expr).
type Op struct {
	Name    string
	Expr    string
	Kind    string // list vec map set scalar closure atom
	Parent  string // first collection argument, if any
	Extends bool   // conj/concat/splice style growth of Parent
	View    bool   // subvec/rest/seq/vec/with-meta style view of Parent
	Call    bool   // closure: calling it returns a value that must stay the same
	Want    string `json:",omitempty"` // the value the expression must have (a literal), where the history cannot tell
	Same    string `json:",omitempty"` // closure: what it returns is the value bound to this name (captured before a nested let bound the name again)
}

type Case struct {
	Ops []Op
}

func (c Case) Text() string {
	ls := make([]string, len(c.Ops))
	for i, o := range c.Ops {
		ls[i] = "(def " + o.Name + " " + o.Expr + ")"
	}
	return strings.Join(ls, "\n")
}

const prelude = "(do " +
	"(defmacro spl (fn (a) (list 'quasiquote (list (list 'splice-unquote a) 9)))) " +
	"(defmacro splv (fn (a b) (list 'quasiquote (vector 0 (list 'splice-unquote a) (list 'unquote b) (list 'splice-unquote a))))) " +
	"(def tl-build (fn (v n acc) (if (< n 1) acc (tl-build (conj v n) (- n 1) (conj acc (fn () v)))))) " +
	"(def tl-build2 (fn (v n acc) (let (w v) (if (< n 1) acc (do (count w) (tl-build2 (conj w n) (- n 1) (conj acc (fn () w)))))))))"

type hg struct {
	t    *rapid.T
	ops  []Op
	last string
}

func (g *hg) pick(label string, n int) int { return rapid.IntRange(0, n-1).Draw(g.t, label) }

func (g *hg) byKind(kinds ...string) []string {
	out := []string{}
	for _, o := range g.ops {
		for _, k := range kinds {
			if o.Kind == k {
				out = append(out, o.Name)
			}
		}
	}
	return out
}

func (g *hg) kindOf(name string) string {
	for _, o := range g.ops {
		if o.Name == name {
			return o.Kind
		}
	}
	return ""
}

// parent selection is biased towards re-using the same parent (fan-out exposes shared backing arrays)
func (g *hg) parent(kinds ...string) (string, bool) {
	c := g.byKind(kinds...)
	if len(c) == 0 {
		return "", false
	}
	if g.last != "" && g.pick("reuse", 2) == 0 {
		for _, n := range c {
			if n == g.last {
				return n, true
			}
		}
	}
	return rapid.SampledFrom(c).Draw(g.t, "parent"), true
}

func (g *hg) item() string {
	switch g.pick("item", 6) {
	case 0:
		return fmt.Sprint(g.pick("iint", 100))
	case 1:
		return ":" + rapid.SampledFrom([]string{"a", "b", "c"}).Draw(g.t, "ikw")
	case 2:
		if all := g.byKind("list", "vec", "map", "set", "scalar"); len(all) > 0 {
			return rapid.SampledFrom(all).Draw(g.t, "ipool")
		}
	case 3:
		return `"s"`
	case 4:
		return "nil"
	}
	return fmt.Sprint(g.pick("iint2", 10))
}

func (g *hg) items(label string, min, max int) string {
	n := rapid.IntRange(min, max).Draw(g.t, label)
	xs := make([]string, n)
	for i := range xs {
		xs[i] = g.item()
	}
	return strings.Join(xs, " ")
}

func (g *hg) key() string {
	return rapid.SampledFrom([]string{":a", ":b", ":c", `"k"`}).Draw(g.t, "key")
}

func (g *hg) literal() Op {
	switch g.pick("lit", 17) {
	case 15: // a sequence whose first item is a list
		return Op{Expr: "(list (list 1 2) 7 8 9)", Kind: "list"}
	case 16:
		return Op{Expr: "[(list 1 2) 7 8 9 10]", Kind: "vec"}
	case 12: // nested three levels deep
		return Op{Expr: "{:a {:b {:c 1 :d [1 2]} :e 2} :f [[[1 2] 3] 4]}", Kind: "deepmap"}
	case 13:
		return Op{Expr: "(hash-map :a (hash-map :b (hash-map :c 1 :d [1 2]) :e 2) :f [[[1 2] 3] 4])", Kind: "deepmap"}
	case 14:
		return Op{Expr: "[[[1 2] {:k [3]}] [4]]", Kind: "deepvec"}
	case 10: // code as data: a macro call in argument position
		return Op{Expr: "(quote (list 1 (cond false 2 true 3) (and 1 2)))", Kind: "list"}
	case 11:
		return Op{Expr: "(quote (do (or nil 5) (list (cond true :x) (-> 1 (+ 2)))))", Kind: "list"}
	case 8: // an exhausted tail: empty, but still a view of its parent's backing array
		return Op{Expr: "(rest (rest (rest [1 2 3])))", Kind: "list"}
	case 9:
		return Op{Expr: "(rest (rest (rest (rest (rest (quote (1 2 3 4 5)))))))", Kind: "list"}
	case 0:
		return Op{Expr: "[" + g.items("litn", 0, 4) + "]", Kind: "vec"}
	case 1:
		return Op{Expr: "(list " + g.items("litn", 0, 4) + ")", Kind: "list"}
	case 2:
		return Op{Expr: "(quote (1 2 3))", Kind: "list"}
	case 3:
		return Op{Expr: fmt.Sprintf("(range 0 %d)", g.pick("rng", 6)), Kind: "vec"}
	case 4:
		return Op{Expr: "{" + g.key() + " " + g.item() + " " + `"z"` + " " + g.item() + "}", Kind: "map"}
	case 5:
		return Op{Expr: "#{:a \"s\"}", Kind: "set"}
	case 6:
		return Op{Expr: "(conj [1 2 3] 4 5)", Kind: "vec"} // spare capacity on the pinned tree
	}
	return Op{Expr: "(vec (list 1 2 3))", Kind: "vec"}
}

func (g *hg) step() Op {
	seqKinds := []string{"list", "vec"}
	for tries := 0; tries < 6; tries++ {
		switch c := gen.Uniform(g.t, "op", 40); {
		case c == 0:
			return g.literal()
		case c <= 3:
			if p, ok := g.parent("list", "vec"); ok {
				return Op{Expr: "(conj " + p + " " + g.items("cj", 1, 3) + ")", Kind: g.kindOf(p), Parent: p, Extends: true}
			}
		case c == 4:
			if p, ok := g.parent("map"); ok {
				return Op{Expr: "(conj " + p + " " + g.key() + " " + g.item() + ")", Kind: "map", Parent: p, Extends: true}
			}
		case c == 5:
			if p, ok := g.parent("set"); ok {
				return Op{Expr: "(conj " + p + ` "x" :y)`, Kind: "set", Parent: p, Extends: true}
			}
		case c <= 8:
			if p, ok := g.parent(seqKinds...); ok {
				n := g.pick("ncat", 3)
				args := []string{p}
				for i := 0; i < n; i++ {
					if q, ok := g.parent(seqKinds...); ok {
						args = append(args, q)
					}
				}
				if g.pick("catlit", 2) == 0 {
					args = append(args, "(list "+g.items("cl", 1, 2)+")")
				}
				return Op{Expr: "(concat " + strings.Join(args, " ") + ")", Kind: "list", Parent: p, Extends: true}
			}
		case c == 9:
			if p, ok := g.parent(seqKinds...); ok {
				return Op{Expr: "(cons " + g.item() + " " + p + ")", Kind: "list", Parent: p}
			}
		case c == 10:
			if p, ok := g.parent("map"); ok {
				return Op{Expr: "(assoc " + p + " " + g.key() + " " + g.item() + ")", Kind: "map", Parent: p}
			}
		case c == 11:
			if p, ok := g.parent("map", "set"); ok {
				// one to three keys, absent ones included (":zz" never exists)
				keys := []string{}
				for i, n := 0, 1+g.pick("ndk", 3); i < n; i++ {
					if g.pick("absent", 3) == 0 {
						keys = append(keys, ":zz")
					} else {
						keys = append(keys, g.key())
					}
				}
				return Op{Expr: "(dissoc " + p + " " + strings.Join(keys, " ") + ")", Kind: g.kindOf(p), Parent: p}
			}
		case c == 12:
			if p, ok := g.parent("vec"); ok {
				return Op{Expr: fmt.Sprintf("(assoc %s %d %s)", p, g.pick("ai", 3), g.item()), Kind: "vec", Parent: p}
			}
		case c <= 14:
			if p, ok := g.parent("vec"); ok {
				a := g.pick("sva", 3)
				b := a + g.pick("svb", 3)
				e := fmt.Sprintf("(subvec %s %d %d)", p, a, b)
				if g.pick("sv2", 3) == 0 {
					e = fmt.Sprintf("(subvec %s %d)", p, a)
				}
				return Op{Expr: e, Kind: "vec", Parent: p, View: true}
			}
		case c == 15:
			if p, ok := g.parent(seqKinds...); ok {
				// walk k steps towards (often to) the end: empty tails still share the backing array
				k := 1 + g.pick("nrest", 4)
				e := p
				for i := 0; i < k; i++ {
					e = "(rest " + e + ")"
				}
				return Op{Expr: e, Kind: "list", Parent: p, View: true}
			}
		case c == 16:
			if p, ok := g.parent(seqKinds...); ok {
				return Op{Expr: "(vec " + p + ")", Kind: "vec", Parent: p, View: true}
			}
		case c == 17:
			if p, ok := g.parent(seqKinds...); ok {
				return Op{Expr: "(seq " + p + ")", Kind: "list", Parent: p, View: true}
			}
		case c == 18:
			if p, ok := g.parent(seqKinds...); ok {
				f := rapid.SampledFrom([]string{"take", "take-last", "drop", "drop-last"}).Draw(g.t, "td")
				return Op{Expr: fmt.Sprintf("(%s %d %s)", f, g.pick("tdn", 4), p), Kind: "list", Parent: p}
			}
		case c == 19:
			if p, ok := g.parent("map"); ok {
				if q, ok := g.parent("map"); ok {
					return Op{Expr: "(merge " + p + " " + q + ")", Kind: "map", Parent: p}
				}
			}
		case c == 20:
			if p, ok := g.parent("map"); ok {
				return Op{Expr: "(rename-keys " + p + " {:a :renamed \"k\" :k2})", Kind: "map", Parent: p}
			}
		case c == 21:
			if p, ok := g.parent("list", "vec", "map", "set"); ok {
				return Op{Expr: "(with-meta " + p + " {:m " + g.item() + "})", Kind: g.kindOf(p), Parent: p, View: true}
			}
		case c == 22:
			if p, ok := g.parent("map"); ok {
				switch g.pick("inop", 3) {
				case 0:
					return Op{Expr: "(assoc-in " + p + " [" + g.key() + " :n] " + g.item() + ")", Kind: "map", Parent: p}
				case 1:
					return Op{Expr: "(update " + p + " " + g.key() + " (fn (x) (conj (if (vector? x) x []) 7)))", Kind: "map", Parent: p}
				}
				return Op{Expr: "(update-in " + p + " [" + g.key() + "] (fn (x) (if (sequential? x) (concat x (list 8)) (list x))))", Kind: "map", Parent: p}
			}
		case c == 23:
			if p, ok := g.parent("vec"); ok {
				switch g.pick("vecin", 6) {
				case 0:
					return Op{Expr: fmt.Sprintf("(update %s %d (fn (x) (list x x)))", p, g.pick("ui", 2)), Kind: "vec", Parent: p}
				case 1: // a path through nested vectors
					return Op{Expr: fmt.Sprintf("(assoc-in %s [%d %d] %s)", p, g.pick("p0", 2), g.pick("p1", 2), g.item()), Kind: "vec", Parent: p}
				case 2:
					return Op{Expr: fmt.Sprintf("(update-in %s [%d %d] (fn (x) (list x)))", p, g.pick("p0", 2), g.pick("p1", 2)), Kind: "vec", Parent: p}
				case 3: // map -> vector -> element
					return Op{Expr: fmt.Sprintf("(assoc-in {:rows %s} [:rows %d] %s)", p, g.pick("p0", 2), g.item()), Kind: "map", Parent: p}
				case 4: // map -> vector -> vector/map
					return Op{Expr: fmt.Sprintf("(assoc-in {:rows %s} [:rows %d %s] %s)", p, g.pick("p0", 2), rapid.SampledFrom([]string{"0", "1", ":n"}).Draw(g.t, "leafkey"), g.item()), Kind: "map", Parent: p}
				default:
					return Op{Expr: fmt.Sprintf("(update-in {:rows %s} [:rows %d] (fn (x) (list x)))", p, g.pick("p0", 2)), Kind: "map", Parent: p}
				}
			}
		case c == 24:
			if p, ok := g.parent(seqKinds...); ok {
				if g.pick("apl", 2) == 0 {
					return Op{Expr: "(apply list " + g.item() + " " + p + ")", Kind: "list", Parent: p}
				}
				return Op{Expr: "(apply (fn (& xs) (trace! xs)) " + p + ")", Kind: "list", Parent: p, View: true}
			}
		case c == 25:
			if p, ok := g.parent(seqKinds...); ok {
				if g.pick("evalcode", 3) == 0 {
					// evaluating a list as code must not rewrite the list (macro expansion works on the form)
					return Op{Expr: "(try (eval " + p + ") (catch e :not-code))", Kind: "scalar", Parent: p}
				}
				switch g.pick("mapk", 4) {
				case 0:
					return Op{Expr: "(map (fn (x) x) " + p + ")", Kind: "list", Parent: p}
				case 1: // rest parameters that outlive the call; trace! keeps a reference and a snapshot of each
					return Op{Expr: "(map (fn (& xs) (trace! xs)) " + p + ")", Kind: "list", Parent: p}
				case 2:
					return Op{Expr: "(map (fn (x & more) (trace! (list x more))) " + p + ")", Kind: "list", Parent: p}
				}
				return Op{Expr: "(first (map (fn (& xs) (fn () xs)) " + p + "))", Kind: "closure", Call: true}
			}
		case c <= 28: // quasiquote splices: first / middle / last position, list and vector templates, inline and via macro
			if p, ok := g.parent(seqKinds...); ok {
				q := p
				if x, ok := g.parent(seqKinds...); ok {
					q = x
				}
				switch g.pick("qq", 7) {
				case 0:
					return Op{Expr: "`(~@" + p + " " + g.item() + ")", Kind: "list", Parent: p, Extends: true}
				case 1:
					return Op{Expr: "`(0 ~@" + p + ")", Kind: "list", Parent: p}
				case 2:
					return Op{Expr: "`[~@" + p + " 5 ~@" + q + "]", Kind: "vec", Parent: p, Extends: true}
				case 3:
					return Op{Expr: "`(~" + p + " ~@" + q + " ~@" + p + ")", Kind: "list", Parent: q, Extends: true}
				case 4:
					return Op{Expr: "(spl " + p + ")", Kind: "list", Parent: p, Extends: true}
				case 5:
					return Op{Expr: "(splv " + p + " " + q + ")", Kind: "vec", Parent: p, Extends: true}
				}
				return Op{Expr: "`(~@" + p + ")", Kind: "list", Parent: p, View: true}
			}
		case c == 29: // nesting
			if p, ok := g.parent("list", "vec", "map", "set"); ok {
				switch g.pick("nest", 4) {
				case 3:
					return Op{Expr: "[" + p + " " + p + " {:n " + p + "}]", Kind: "vec"}
				case 0:
					return Op{Expr: "[" + p + " " + g.item() + "]", Kind: "vec"}
				case 1:
					return Op{Expr: "{:k " + p + "}", Kind: "map"}
				}
				return Op{Expr: "(list " + p + " " + p + ")", Kind: "list"}
			}
		case c == 30: // capture in a closure, called later
			if p, ok := g.parent("list", "vec", "map", "set"); ok {
				if g.pick("clo", 2) == 0 {
					return Op{Expr: "(let (c " + p + ") (fn () c))", Kind: "closure", Call: true}
				}
				return Op{Expr: "(let (c " + p + ") (fn () (do (conj c 1) c)))", Kind: "closure", Call: true}
			}
		case c == 33: // a closure over a binding that a nested let in tail position binds again to a derived value
			if p, ok := g.parent("list", "vec", "map"); ok {
				grow := "(conj c :more)"
				if g.kindOf(p) == "map" {
					grow = "(assoc c :more 1)"
				}
				inner := "(let (c " + grow + ") (do (count c) snap))"
				switch g.pick("tlvia", 3) {
				case 1:
					inner = "(do 1 " + inner + ")"
				case 2:
					inner = "(if true " + inner + " nil)"
				}
				if g.pick("tlfn", 3) == 0 {
					return Op{Expr: "((fn (c) (let (snap (fn () c)) " + inner + ")) " + p + ")", Kind: "closure", Call: true, Same: p}
				}
				return Op{Expr: "(let (c " + p + " snap (fn () c)) " + inner + ")", Kind: "closure", Call: true, Same: p}
			}
		case c == 34: // a self tail-recursive builder collects one closure per iteration over its parameter; the first one captured the parent
			if p, ok := g.parent("list", "vec"); ok {
				b := []string{"tl-build", "tl-build2"}[g.pick("tlb", 2)]
				return Op{Expr: "(first (" + b + " " + p + " 3 []))", Kind: "closure", Call: true, Same: p}
			}
		case c == 35: // updates three levels down
			if p, ok := g.parent("deepmap"); ok {
				switch g.pick("deepop", 5) {
				case 0:
					return Op{Expr: "(update-in " + p + " [:a :b :c] (fn (x) 99))", Kind: "deepmap", Parent: p}
				case 1:
					return Op{Expr: "(assoc-in " + p + " [:a :b :c] 98)", Kind: "deepmap", Parent: p}
				case 2:
					return Op{Expr: "(update-in " + p + " [:a :b :d] (fn (x) (conj x 3)))", Kind: "deepmap", Parent: p}
				case 3:
					return Op{Expr: "(assoc-in " + p + " [:f 0 0 1] 97)", Kind: "deepmap", Parent: p}
				default:
					return Op{Expr: "(get-in " + p + " [:a :b])", Kind: "map", Parent: p, View: true}
				}
			}
			if p, ok := g.parent("deepvec"); ok {
				switch g.pick("deepvop", 3) {
				case 0:
					return Op{Expr: "(update-in " + p + " [0 0 1] (fn (x) 96))", Kind: "deepvec", Parent: p}
				case 1:
					return Op{Expr: "(assoc-in " + p + " [0 0 0] 95)", Kind: "deepvec", Parent: p}
				default:
					return Op{Expr: "(nth (nth " + p + " 0) 0)", Kind: "vec", Parent: p, View: true}
				}
			}
		case c == 37: // the collection itself is the argument list of a variadic builtin
			if p, ok := g.parent("list", "vec"); ok {
				return Op{Expr: "(try (apply conj " + p + ") (catch e :not-applicable))", Kind: "scalar", Parent: p}
			}
		case c == 38: // an update function that keeps its argument list, applied twice because the atom changed under it
			return Op{Expr: "(let (at (atom 0) seen (atom [])) (do (swap! at (fn (& xs) (do (swap! seen conj xs) (if (= (first xs) 0) (reset! at 100)) (count xs))) 5) (deref seen)))",
				Kind: "vec", Want: "[(0 5) (100 5)]"}
		case c == 36: // a handler whose catch variable is named like a bound value
			if p, ok := g.parent("list", "vec", "map", "set", "deepmap"); ok {
				return Op{Expr: "(try (throw \"boom\") (catch " + p + " (count " + p + ")))", Kind: "scalar"}
			}
		case c == 31: // reduce with conj: many extensions in a row
			if p, ok := g.parent(seqKinds...); ok {
				if q, ok := g.parent(seqKinds...); ok {
					if g.pick("redk", 2) == 0 {
						return Op{Expr: "(reduce (fn (a x) (trace! (conj a x))) " + p + " " + q + ")", Kind: g.kindOf(p), Parent: p, Extends: true}
					}
					return Op{Expr: "(reduce conj " + p + " " + q + ")", Kind: g.kindOf(p), Parent: p, Extends: true}
				}
			}
		case c == 32: // a value stored in an atom and updated there
			if p, ok := g.parent("vec", "list", "map"); ok {
				if g.kindOf(p) == "map" {
					return Op{Expr: "(let (at (atom " + p + ")) (do (swap! at assoc :z 1) (swap! at dissoc :a) @at))", Kind: "map", Parent: p}
				}
				return Op{Expr: "(let (at (atom " + p + ")) (do (swap! at conj 1) (swap! at conj 2) @at))", Kind: g.kindOf(p), Parent: p, Extends: true}
			}
		default:
			if p, ok := g.parent("set"); ok {
				return Op{Expr: "(assoc " + p + " \"q\")", Kind: "set", Parent: p}
			}
		}
	}
	return g.literal()
}

func genCase(t *rapid.T) Case {
	g := &hg{t: t}
	n := rapid.IntRange(5, 40).Draw(t, "steps")
	for i := 0; i < n; i++ {
		var o Op
		if i < 2 {
			o = g.literal()
		} else {
			o = g.step()
		}
		o.Name = fmt.Sprintf("v%d", i)
		g.ops = append(g.ops, o)
		if o.Parent != "" {
			g.last = o.Parent
		}
	}
	return Case{Ops: g.ops}
}

func opName(expr string) string {
	switch expr[0] {
	case '[', '{', '#':
		return "literal"
	}
	e := strings.TrimLeft(expr, "(`[~@")
	if i := strings.IndexAny(e, " )"); i > 0 {
		e = e[:i]
	}
	if strings.HasPrefix(expr, "`") {
		return "quasiquote"
	}
	return e
}

func check(c Case) pbt.Verdict {
	box.Silence()
	e := box.FullEnv()
	tr := box.AddTrace(e)
	ctx, cancel := context.WithTimeout(context.Background(), 20*time.Second)
	defer cancel()
	if r := box.ReadEval(ctx, prelude, e); r.Err != nil || r.Panicked {
		return pbt.Failf("harness-prelude", "prelude failed: %v %v", r.Err, r.PanicVal)
	}
	type snap struct {
		name   string
		v      val.V
		call   bool
		origin string
	}
	snaps := []snap{}
	v := pbt.Verdict{Key: c.Text()}
	extended := map[string]int{}
	views := map[string]bool{}
	spare := false
	nt := false
	for i, o := range c.Ops {
		r := box.ReadEval(ctx, "(def "+o.Name+" "+o.Expr+")", e)
		if r.Panicked {
			return pbt.Failf("panic:"+r.PanicSite, "step %d %s panicked: %v\nhistory:\n%s", i, o.Expr, r.PanicVal, c.Text())
		}
		if r.Err != nil {
			v.Labels = append(v.Labels, "op-error:"+opName(o.Expr))
		} else {
			v.Labels = append(v.Labels, "op:"+opName(o.Expr))
			if o.Want != "" {
				wr := box.ReadEval(ctx, "(quote "+o.Want+")", e)
				if got := val.From(r.Val); wr.Err == nil && !val.EqLisp(got, val.From(wr.Val)) {
					return pbt.Failf("wrong-value:"+opName(o.Expr), "step %d  (def %s %s)  gives %s, must give %s\nhistory:\n%s", i, o.Name, o.Expr, val.Canon(got), o.Want, c.Text())
				}
			}
			s := snap{name: o.Name, origin: o.Expr}
			if o.Call {
				cr := box.ReadEval(ctx, "("+o.Name+")", e)
				if cr.Err == nil && !cr.Panicked {
					s.call = true
					s.v = val.From(cr.Val)
					if o.Same != "" {
						for _, prev := range snaps {
							if prev.name == o.Same && !prev.call {
								s.v = prev.v // what the closure captured
							}
						}
					}
					snaps = append(snaps, s)
				}
			} else {
				s.v = val.From(r.Val)
				snaps = append(snaps, s)
			}
			switch x := r.Val.(type) {
			case types.List:
				spare = spare || cap(x.Val) > len(x.Val)
			case types.Vector:
				spare = spare || cap(x.Val) > len(x.Val)
			}
			if o.Extends {
				extended[o.Parent]++
				if extended[o.Parent] >= 2 || views[o.Parent] {
					nt = true
				}
			}
			if o.View {
				views[o.Name] = true
			}
		}
		// invariant: every intermediate value a callback saw (trace! keeps the reference and a
		// snapshot taken at that moment) is still what it was
		tr.Each(func(j int, snapshot val.V, raw types.MalType) bool {
			if now := val.From(raw); !val.Eq(now, snapshot) {
				v = pbt.Failf("intermediate-mutated-by:"+opName(o.Expr), "after step %d  (def %s %s)  a value seen by a callback as %s is now %s\nhistory:\n%s",
					i, o.Name, o.Expr, val.Canon(snapshot), val.Canon(now), c.Text())
				return false
			}
			return true
		})
		if v.Fail {
			return v
		}
		// invariant: every value ever bound still equals its snapshot
		for _, s := range snaps {
			var now val.V
			if s.call {
				cr := box.ReadEval(ctx, "("+s.name+")", e)
				if cr.Err != nil || cr.Panicked {
					return pbt.Failf("closure-call-changed", "closure %s no longer callable after step %d: %v", s.name, i, cr.Err)
				}
				now = val.From(cr.Val)
			} else {
				cur, ok := box.Lookup(e, s.name)
				if !ok {
					return pbt.Failf("binding-lost", "%s unbound after step %d", s.name, i)
				}
				now = val.From(cur)
			}
			if !val.Eq(now, s.v) {
				return pbt.Failf("mutated-by:"+opName(o.Expr), "after step %d  (def %s %s)  the value of %s (created by %s) changed from %s to %s\nhistory:\n%s",
					i, o.Name, o.Expr, s.name, s.origin, val.Canon(s.v), val.Canon(now), c.Text())
			}
		}
	}
	if spare {
		v.Labels = append(v.Labels, "some-value-had-spare-capacity")
	}
	v.NonTrivial = nt
	return v
}

var P = pbt.Prop[Case]{
	ID:    "C02",
	Gen:   genCase,
	Check: check,
	Show:  func(c Case) any { return c.Text() },
}

func TestMain(m *testing.M)   { pbt.Main(m) }
func TestProp(t *testing.T)   { pbt.Run(t, P) }
func TestCorpus(t *testing.T) { pbt.Corpus(t, P) }
func TestReplay(t *testing.T) { pbt.Replay(t, P) }
