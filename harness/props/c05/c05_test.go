package c05

import (
	"context"
	"fmt"
	"os"
	"path/filepath"
	"strings"
	"testing"
	"time"

	"github.com/jig/lisp"
	"github.com/jig/lisp/reader"
	"github.com/jig/lisp/types"
	"pgregory.net/rapid"

	"verifharness/internal/box"
	"verifharness/internal/gen"
	"verifharness/internal/pbt"
)

// Case: the bytes to read and the route they take.
type Case struct {
	In    []byte
	Text  string `json:",omitempty"` // hand-written corpus cases (valid UTF-8 only)
	Route string // read-nil read-env preamble-nil preamble-env read-string placeholders-nil placeholders-map
}

var Routes = []string{"read-nil", "read-env", "preamble-nil", "preamble-env", "read-string", "placeholders-nil", "placeholders-map"}

func genCase(t *rapid.T) Case {
	c := Case{Route: rapid.SampledFrom(Routes).Draw(t, "route")}
	s := gen.Soup(t, "soup")
	if strings.HasPrefix(c.Route, "preamble") && rapid.IntRange(0, 1).Draw(t, "withpre") == 0 {
		// a preamble in front: well-formed and broken lines
		n := rapid.IntRange(0, 3).Draw(t, "npre")
		pre := ""
		for i := 0; i < n; i++ {
			pre += rapid.SampledFrom([]string{";; $x 1\n", ";; $y (+ 1 2)\n", ";; $a $b\n", ";; $z \"s\n", ";; $\n", ";; $k ¬{\"a\": 1}¬\n", ";; $q (\n", ";;$x 1\n", ";; $x  \n", ";; $MODULE m\n", "\n", ";; $v " + gen.Soup(t, "preval") + "\n"}).Draw(t, "preline")
		}
		s = pre + s
	}
	c.In = []byte(s)
	return c
}

var sharedEnv types.EnvType

func fullEnv() types.EnvType {
	if sharedEnv == nil {
		sharedEnv = box.FullEnv()
		// an embedder's own definitions whose names look like Go-constructor hooks (new-<type>) but are not Go functions
		for _, d := range []string{"(def new-point (fn (x y) [x y]))", "(defmacro new-twice (fn (x) x))", "(def new-limit 10)", "(def new-nothing nil)", "(def new-vec [1])", "(def new-str \"s\")", "(def new-kw :k)", "(def new-map {:a 1})"} {
			if r := box.ReadEval(context.Background(), d, sharedEnv); r.Err != nil || r.Panicked {
				panic(fmt.Sprint(r.Err, r.PanicVal))
			}
		}
	}
	return sharedEnv
}

func readRoute(c Case) (types.MalType, error) {
	src := string(c.In)
	switch c.Route {
	case "read-nil":
		return lisp.READ(src, nil, nil)
	case "read-env":
		return lisp.READ(src, types.NewCursorFile("m"), fullEnv())
	case "preamble-nil":
		return lisp.READWithPreamble(src, nil, nil)
	case "preamble-env":
		return lisp.READWithPreamble(src, types.NewCursorFile("m"), fullEnv())
	case "read-string":
		e := fullEnv()
		e.Set(types.Symbol{Val: "verif-input"}, src)
		return lisp.EVAL(context.Background(), types.List{Val: []types.MalType{types.Symbol{Val: "read-string"}, types.Symbol{Val: "verif-input"}}}, e)
	case "placeholders-nil":
		return reader.Read_str(src, nil, nil, fullEnv())
	case "placeholders-map":
		m := &types.HashMap{Val: map[string]types.MalType{"$x": 1, "$1": types.List{Val: []types.MalType{types.Symbol{Val: "+"}, 1, 2}}, "$a-b_c": "s", "$": nil}}
		return reader.Read_str(src, types.NewCursorFile("m"), m, fullEnv())
	}
	return nil, fmt.Errorf("unknown route %s", c.Route)
}

func check(c Case) pbt.Verdict {
	box.Silence()
	if c.In == nil && c.Text != "" {
		c.In = []byte(c.Text)
	}
	type out struct {
		r       box.Result
		printed bool
		perr    box.Result
	}
	done := make(chan out, 1)
	go func() {
		var o out
		o.r = box.Guard(func() (types.MalType, error) { return readRoute(c) })
		if !o.r.Panicked && o.r.Err == nil {
			o.perr = box.Guard(func() (types.MalType, error) { return lisp.PRINT(o.r.Val), nil })
			o.printed = true
		}
		done <- o
	}()
	var o out
	select {
	case o = <-done:
	case <-time.After(10 * time.Second):
		return pbt.Failf("hang:"+c.Route, "route %s did not return within 10 s on %q", c.Route, c.In)
	}
	if o.r.Panicked {
		return pbt.Failf("panic:"+o.r.PanicSite, "route %s panicked on %q: %v", c.Route, c.In, o.r.PanicVal)
	}
	if o.printed && o.perr.Panicked {
		return pbt.Failf("print-panic:"+o.perr.PanicSite, "PRINT of the result of route %s on %q panicked: %v", c.Route, c.In, o.perr.PanicVal)
	}
	v := pbt.Verdict{Key: c.Route + "\x00" + string(c.In)}
	outcome := "error"
	if o.r.Err == nil {
		outcome = "ast"
	}
	v.Labels = []string{"route:" + c.Route + ":" + outcome}
	toks := len(strings.Fields(string(c.In)))
	_, isSym := o.r.Val.(types.Symbol)
	plainAtom := o.r.Err == nil && (isSym || o.r.Val == nil || isScalar(o.r.Val))
	v.NonTrivial = toks >= 3 && !plainAtom
	return v
}

func isScalar(x types.MalType) bool {
	switch x.(type) {
	case int, string, bool, float32:
		return true
	}
	return false
}

var P = pbt.Prop[Case]{
	ID:    "C05",
	Gen:   genCase,
	Check: check,
	Show:  func(c Case) any { return map[string]string{"route": c.Route, "input": fmt.Sprintf("%q", c.In)} },
}

func TestMain(m *testing.M)   { pbt.Main(m) }
func TestProp(t *testing.T)   { pbt.Run(t, P) }
func TestCorpus(t *testing.T) { pbt.Corpus(t, P) }
func TestReplay(t *testing.T) { pbt.Replay(t, P) }

// TestRepoTexts: every line and every prefix-cut of the repository's own lisp sources, all routes.
func TestRepoTexts(t *testing.T) {
	n := 0
	for _, pat := range []string{"/repo/tests/*.mal", "/repo/lib/*/*.lisp", "/repo/lib/*/*.mal", "/repo/examples/*.lisp", "/repo/tests/lib/*.mal"} {
		files, _ := filepath.Glob(pat)
		for _, f := range files {
			b, err := os.ReadFile(f)
			if err != nil {
				continue
			}
			for _, line := range strings.Split(string(b), "\n") {
				if strings.TrimSpace(line) == "" {
					continue
				}
				for _, r := range Routes {
					n++
					if !pbt.RunOne(t, P, Case{In: []byte(line), Route: r}) {
						return
					}
				}
				// every cut of the line through the plain reader
				if len(line) < 120 {
					for i := 1; i < len(line); i++ {
						n++
						if !pbt.RunOne(t, P, Case{In: []byte(line[:i]), Route: "read-nil"}) {
							return
						}
					}
				}
			}
			for _, r := range Routes {
				n++
				if !pbt.RunOne(t, P, Case{In: b, Route: r}) {
					return
				}
			}
		}
	}
	pbt.Exhaustive("every line (all routes) and every prefix of every short line of the repository's .mal/.lisp files", n)
}

func seed(f *testing.F) {
	for _, s := range []string{"", "(", "'", "`", "~", "~@", "^", "^{}", "@", "$x", "«»", "«1»", "«foo»", ";; $a $b\n", "(+ 1 2)", "{:a 1}", "#{:a}", "\"a\\\"b\"", "¬a¬¬b¬", "¬", "\x00", "\xff", "[1 2", "(def a 1)", ";; $x 1\n\n(+ $x 1)", "^{:a 1} [1]", "(a . b)", "1.5e3", "0x", "«atom 1»", "{:a}", "`(~a ~@b)", ";; $MODULE m", ";; $MODULE m\n(+ 1 2)", ";; $x 1", "\"{\"", "\"}\"", "{\"\" 1}"} {
		f.Add([]byte(s))
	}
	files, _ := filepath.Glob("/repo/tests/step*.mal")
	for _, fn := range files {
		b, err := os.ReadFile(fn)
		if err != nil {
			continue
		}
		for i, line := range strings.Split(string(b), "\n") {
			if i%7 == 0 && strings.TrimSpace(line) != "" && len(line) < 200 {
				f.Add([]byte(line))
			}
		}
	}
}

func fuzzRoute(f *testing.F, route string) {
	seed(f)
	f.Fuzz(func(t *testing.T, data []byte) {
		if len(data) > 1<<16 {
			return
		}
		pbt.RunOne(t, P, Case{In: data, Route: route})
	})
}

func FuzzRead(f *testing.F)             { fuzzRoute(f, "read-nil") }
func FuzzReadEnv(f *testing.F)          { fuzzRoute(f, "read-env") }
func FuzzReadPreamble(f *testing.F)     { fuzzRoute(f, "preamble-env") }
func FuzzReadString(f *testing.F)       { fuzzRoute(f, "read-string") }
func FuzzReadPlaceholders(f *testing.F) { fuzzRoute(f, "placeholders-map") }
