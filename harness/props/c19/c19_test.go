package c19

import (
	"context"
	"encoding/json"
	"fmt"
	"os"
	"path/filepath"
	"strings"
	"testing"
	"time"

	"github.com/jig/lisp"
	"github.com/jig/lisp/env"
	"github.com/jig/lisp/lib/core/nscore"
	"github.com/jig/lisp/types"
	"pgregory.net/rapid"

	"verifharness/internal/box"
	"verifharness/internal/gen"
	"verifharness/internal/pbt"
	"verifharness/internal/refmal"
	"verifharness/internal/val"
)

// Case: a program (top-level forms), the same forms rendered with a generated layout,
// and the layout of the whole file used for the (do …) and load-file routes.
type Case struct {
	Forms    []val.V
	Src      string   `json:",omitempty"` // hand-written corpus cases
	Laid     []string // each form with generated separators/comments/line endings
	FileText string   // all forms in one text, generated layout between them, generated trailer
	Uses     []string
}

func (c Case) Text() string {
	ls := make([]string, len(c.Forms))
	for i, f := range c.Forms {
		ls[i] = val.Literal(f)
	}
	return strings.Join(ls, "\n")
}

var candidates = []string{"z", "m", "a", "b", "c", "x", "y", "n", "f", "k", "e", "err", "more", "r", "acc", "go", "v", "zz", "zz-unbound", "tmp"}

func genCase(t *rapid.T) Case {
	p := gen.Program(t, gen.PFlags{Cond: true, Try: true, QQ: true, Macros: true, Budget: 50, HotStr: true, FnEq: true, Bulk: true})
	c := Case{Forms: p.Forms}
	for u := range p.Uses {
		c.Uses = append(c.Uses, u)
	}
	short := rapid.Bool().Draw(t, "short")
	rawStrings := rapid.Bool().Draw(t, "rawstrings")
	var file strings.Builder
	file.WriteString(rapid.SampledFrom([]string{"", "\n", "; leading comment\n", "\r\n", ";; $MODULE fake\n", "  "}).Draw(t, "lead"))
	for i, f := range c.Forms {
		txt, _ := gen.Layout(t, gen.TokensRaw(f, short, rawStrings))
		// text handed to READ / REPL may start with blank lines and comments, also preamble-looking ones
		txt = rapid.SampledFrom([]string{"", "", "", "\n", "  ", "; c\n", ";; $x 1\n", ";; $Id: prog.lisp 42 $\n", ";; $a $b\n\n", "\r\n", ";;\n"}).Draw(t, "formlead") + txt
		c.Laid = append(c.Laid, txt)
		if i > 0 {
			file.WriteString(gen.Sep(t, true))
		}
		file.WriteString(txt)
	}
	file.WriteString(rapid.SampledFrom(gen.Trailers).Draw(t, "trailer"))
	c.FileText = file.String()
	return c
}

func newEnv() (types.EnvType, *box.Trace) {
	e := env.NewEnv()
	if err := nscore.Load(e); err != nil {
		panic(err)
	}
	if err := nscore.LoadInput(e); err != nil {
		panic(err)
	}
	return e, box.AddTrace(e)
}

type routeResult struct {
	name  string
	r     box.Result
	trace []val.V
	env   types.EnvType
	noVal bool
}

var tmpDir string

func check(c Case) pbt.Verdict {
	box.Silence()
	if f := os.Getenv("VERIF_DUMP_CASE"); f != "" {
		// debugging aid: the case about to be checked (a fatal runtime error leaves no other trace)
		if b, err := json.Marshal(c); err == nil {
			_ = os.WriteFile(f, b, 0o644)
		}
	}
	if len(c.Forms) == 0 && c.Src != "" {
		c.Forms = box.ParseForms(c.Src)
		for _, f := range c.Forms {
			c.Laid = append(c.Laid, val.Literal(f))
		}
		if c.FileText == "" {
			c.FileText = c.Src
		}
	}
	in := refmal.New()
	o := in.Run(c.Forms)
	// where the reference interpreter leaves the outcome open (= on functions …) the routes are still
	// compared with each other: the first route stands in for the definition
	relative, why := false, o.Aborted
	if o.Aborted != "" {
		if !strings.HasPrefix(o.Aborted, "unspecified") {
			return pbt.Verdict{Excluded: "model-" + strings.SplitN(o.Aborted, ":", 2)[0], Labels: []string{"excluded:" + o.Aborted}}
		}
		relative = true
	}
	budget := 20 * time.Second
	if relative {
		// not screened for termination by the reference interpreter: a program that runs long is not compared
		budget = 300 * time.Millisecond // (a non-tail recursion grows the Go stack by ~0.5 GB/s; the stack limit of 1 GB is fatal)
	}
	ctx, cancel := context.WithTimeout(context.Background(), budget)
	defer cancel()
	started := time.Now()
	mod := "verif-module"

	seq := func(name string, one func(e types.EnvType, i int) (types.MalType, error)) routeResult {
		e, tr := newEnv()
		var r box.Result
		for i := range c.Forms {
			i := i
			r = box.Guard(func() (types.MalType, error) { return one(e, i) })
			if r.Panicked || r.Err != nil {
				break
			}
		}
		return routeResult{name: name, r: r, trace: tr.Snapshot(), env: e}
	}
	routes := []routeResult{}
	// R1: READ with a module name, generated layout
	routes = append(routes, seq("R1-read-module", func(e types.EnvType, i int) (types.MalType, error) {
		ast, err := lisp.READ(c.Laid[i], types.NewCursorFile(mod), e)
		if err != nil {
			return nil, fmt.Errorf("READ: %w", err)
		}
		return lisp.EVAL(ctx, ast, e)
	}))
	if relative && (time.Since(started) > 50*time.Millisecond /* deep but finite recursions must stay far from the stack limit on every route */ || (routes[0].r.Err != nil && strings.Contains(routes[0].r.Err.Error(), "timeout"))) {
		return pbt.Verdict{Excluded: "model-unspecified-and-long-running", Labels: []string{"excluded:" + why + " (long running)"}}
	}
	if relative {
		// the program terminates quickly: the other routes get the usual generous context
		ctx2, cancel2 := context.WithTimeout(context.Background(), 20*time.Second)
		defer cancel2()
		ctx = ctx2
	}
	// R2: READ without cursor, canonical layout
	routes = append(routes, seq("R2-read-nil-cursor", func(e types.EnvType, i int) (types.MalType, error) {
		ast, err := lisp.READ(val.Literal(c.Forms[i]), nil, e)
		if err != nil {
			return nil, fmt.Errorf("READ: %w", err)
		}
		return lisp.EVAL(ctx, ast, e)
	}))
	// R3: AST built from Go, no positions anywhere
	routes = append(routes, seq("R3-go-built", func(e types.EnvType, i int) (types.MalType, error) {
		return lisp.EVAL(ctx, val.To(c.Forms[i]), e)
	}))
	// R4: re-read from its own printed form
	routes = append(routes, seq("R4-print-read", func(e types.EnvType, i int) (types.MalType, error) {
		ast, err := lisp.READ(c.Laid[i], nil, e)
		if err != nil {
			return nil, fmt.Errorf("READ: %w", err)
		}
		ast2, err := lisp.READ(lisp.PRINT(ast), nil, e)
		if err != nil {
			return nil, fmt.Errorf("READ of PRINT: %w", err)
		}
		return lisp.EVAL(ctx, ast2, e)
	}))
	// R5: forms fed one by one to REPL (the value comes back printed)
	var r5last string
	r5 := seq("R5-repl", func(e types.EnvType, i int) (types.MalType, error) {
		out, err := lisp.REPL(ctx, e, c.Laid[i], types.NewCursorFile("REPL"))
		if err != nil {
			return nil, err
		}
		r5last, _ = out.(string)
		return nil, nil
	})
	r5.noVal = true
	routes = append(routes, r5)
	// R6: wrapped in a single do, whole-file layout
	{
		e, tr := newEnv()
		r := box.Guard(func() (types.MalType, error) {
			ast, err := lisp.READ("(do "+c.FileText+"\n)", types.NewCursorFile(mod), e)
			if err != nil {
				return nil, fmt.Errorf("READ: %w", err)
			}
			return lisp.EVAL(ctx, ast, e)
		})
		routes = append(routes, routeResult{name: "R6-single-do", r: r, trace: tr.Snapshot(), env: e})
	}
	// R7: load-file
	{
		e, tr := newEnv()
		if tmpDir == "" {
			tmpDir, _ = os.MkdirTemp("", "verif-c19-")
		}
		path := filepath.Join(tmpDir, "prog.lisp")
		if err := os.WriteFile(path, []byte(c.FileText), 0o644); err != nil {
			return pbt.Verdict{Inconclusive: true}
		}
		r := box.Guard(func() (types.MalType, error) {
			ast, err := lisp.READ("(load-file "+val.QuoteStr(path)+")", nil, e)
			if err != nil {
				return nil, err
			}
			return lisp.EVAL(ctx, ast, e)
		})
		routes = append(routes, routeResult{name: "R7-load-file", r: r, trace: tr.Snapshot(), env: e, noVal: true})
	}

	modelTrace := in.Trace
	if relative {
		first := routes[0]
		if first.r.Panicked {
			return pbt.Failf("panic:"+first.r.PanicSite, "route %s panicked: %v\nprogram:\n%s", first.name, first.r.PanicVal, c.Text())
		}
		if hasOpaque(val.From(first.r.Val)) {
			return pbt.Verdict{Excluded: "model-unspecified", Labels: []string{"excluded:" + why}}
		}
		o = box.OutcomeOf(first.r)
		modelTrace = first.trace
	}
	for _, rt := range routes {
		if rt.r.Panicked {
			return pbt.Failf("panic:"+rt.r.PanicSite, "route %s panicked: %v\nprogram:\n%s", rt.name, rt.r.PanicVal, c.Text())
		}
		var sig, msg string
		if rt.noVal {
			// only error-or-not and (for errors) the thrown object
			if (o.Thrown == nil) != (rt.r.Err == nil) {
				sig, msg = "error-kind", fmt.Sprintf("definition: error=%v, route: error=%v (%v)", o.Thrown != nil, rt.r.Err != nil, rt.r.Err)
			} else if o.Thrown != nil {
				sig, msg = box.CompareOutcome(o, rt.r)
			}
		} else {
			sig, msg = box.CompareOutcome(o, rt.r)
		}
		if sig != "" {
			return pbt.Failf(rt.name+":"+sig, "route %s: %s\nprogram:\n%s\nfile text:\n%q", rt.name, msg, c.Text(), c.FileText)
		}
		// the routes also agree with each other exactly: what a handler saw of a failing builtin (its error text …)
		// is left open by the definition, but must not depend on the route
		if rt.name != routes[0].name {
			if !rt.noVal && !hasMap(o.Val) {
				if sig, msg := box.CompareResults(routes[0].r, rt.r, false); sig != "" && !strings.HasPrefix(sig, "error-") {
					return pbt.Failf(rt.name+":differs-from-"+routes[0].name+":"+sig, "route %s vs route %s: %s\nprogram:\n%s\nfile text:\n%q", routes[0].name, rt.name, msg, c.Text(), c.FileText)
				}
			}
			if len(rt.trace) == len(routes[0].trace) {
				for i := range rt.trace {
					if !val.EqExact(rt.trace[i], routes[0].trace[i]) {
						return pbt.Failf(rt.name+":differs-from-"+routes[0].name+":effect", "route %s vs route %s: effect #%d is %s on the one and %s on the other\nprogram:\n%s\nfile text:\n%q",
							routes[0].name, rt.name, i, val.Canon(routes[0].trace[i]), val.Canon(rt.trace[i]), c.Text(), c.FileText)
					}
				}
			}
		}
		if d := box.CompareTrace(modelTrace, rt.trace); d != "" {
			return pbt.Failf(rt.name+":effects-differ", "route %s: %s\nprogram:\n%s\nfile text:\n%q", rt.name, d, c.Text(), c.FileText)
		}
		if relative {
			continue
		}
		if d := box.CompareGlobals(in, rt.env, candidates); d != "" {
			return pbt.Failf(rt.name+":globals-differ", "route %s: %s\nprogram:\n%s", rt.name, d, c.Text())
		}
	}
	// R5's printed value, when the value is plain data, equals PRINT of R1's value
	if o.Thrown == nil && !hasOpaque(o.Val) {
		want := lisp.PRINT(routes[0].r.Val)
		if !hasMap(o.Val) && r5last != want {
			return pbt.Failf("R5-repl:printed-value", "REPL printed %q, PRINT of the READ/EVAL value is %q\nprogram:\n%s", r5last, want, c.Text())
		}
	}
	v := pbt.Verdict{Key: c.Text() + "\x00" + c.FileText}
	if relative {
		v.Labels = append(v.Labels, "relative:"+why)
	}
	for _, u := range c.Uses {
		v.Labels = append(v.Labels, "uses:"+u)
	}
	hasComment := strings.Contains(c.FileText, ";")
	odd := strings.Contains(c.FileText, "\r\n") || !strings.HasSuffix(c.FileText, "\n")
	prog := false
	for _, u := range c.Uses {
		if u == "closure-call" || u == "macro-call" || u == "closure-capture" {
			prog = true
		}
	}
	if o.Thrown != nil {
		v.Labels = append(v.Labels, "outcome:error")
	} else {
		v.Labels = append(v.Labels, "outcome:value")
	}
	if strings.HasSuffix(strings.TrimRight(c.FileText, " "), "comment without newline") || strings.HasSuffix(c.FileText, ";") {
		v.Labels = append(v.Labels, "layout:trailing-comment-no-newline")
	}
	v.NonTrivial = hasComment && odd && prog
	return v
}

func hasOpaque(v val.V) bool {
	switch v.K {
	case val.Fn, val.GoErr, val.Atom, val.Other:
		return true
	case val.List, val.Vec:
		for _, e := range v.L {
			if hasOpaque(e) {
				return true
			}
		}
	case val.Map:
		for _, e := range v.M {
			if hasOpaque(e) {
				return true
			}
		}
	}
	return false
}

func hasMap(v val.V) bool {
	switch v.K {
	case val.Map, val.Set:
		return true
	case val.List, val.Vec:
		for _, e := range v.L {
			if hasMap(e) {
				return true
			}
		}
	}
	return false
}

var P = pbt.Prop[Case]{
	ID:    "C19",
	Gen:   genCase,
	Check: check,
	Show:  func(c Case) any { return c.FileText },
}

func TestMain(m *testing.M) {
	defer func() {
		if tmpDir != "" {
			os.RemoveAll(tmpDir)
		}
	}()
	pbt.Main(m)
}
func TestProp(t *testing.T)   { pbt.Run(t, P); cleanup() }
func TestCorpus(t *testing.T) { pbt.Corpus(t, P); cleanup() }
func TestReplay(t *testing.T) { pbt.Replay(t, P); cleanup() }

func cleanup() {
	if tmpDir != "" {
		os.RemoveAll(tmpDir)
		tmpDir = ""
	}
}
