package c03

import (
	"context"
	"errors"
	"fmt"
	"strings"
	"testing"
	"time"

	"github.com/jig/lisp"
	"github.com/jig/lisp/types"
	"pgregory.net/rapid"

	"verifharness/internal/box"
	"verifharness/internal/gen"
	"verifharness/internal/pbt"
	"verifharness/internal/refmal"
	"verifharness/internal/val"
)

type Case struct {
	Forms []val.V
	Src   string `json:",omitempty"` // hand-written corpus cases: source text instead of Forms
	Uses  []string
	Ctx   int // 0: context.Background(), 1: deadline far away, 2: cancellable, no deadline
}

func (c Case) Text() string {
	ls := make([]string, len(c.Forms))
	for i, f := range c.Forms {
		ls[i] = val.Literal(f)
	}
	return strings.Join(ls, "\n")
}

var candidates = []string{"z", "m", "a", "b", "c", "x", "y", "n", "f", "k", "e", "err", "more", "r", "acc", "go", "v", "zz", "zz-unbound", "tmp"}

func genCase(t *rapid.T) Case {
	p := gen.Program(t, gen.PFlags{Cond: true, Try: true, Sentinels: true, Macros: true, QQ: true, Budget: 60, Atoms: true})
	us := []string{}
	for u := range p.Uses {
		us = append(us, u)
	}
	return Case{Forms: p.Forms, Uses: us, Ctx: rapid.IntRange(0, 2).Draw(t, "ctxkind")}
}

func has(us []string, s string) bool {
	for _, u := range us {
		if u == s {
			return true
		}
	}
	return false
}

// classify a failure by the construct involved, so that different root causes get different signatures
func classify(c Case, base string) string {
	switch {
	case base == "effects-differ" || base == "wrong-value" || base == "value-instead-of-error" || base == "error-instead-of-value" || base == "thrown-value-changed":
		tags := []string{}
		for _, u := range []string{"code-looking-datum", "finally-reads-var", "handler-tailcall", "finally-throws", "handler-throws", "handler-rethrows", "go-panic", "go-error"} {
			if has(c.Uses, u) {
				tags = append(tags, u)
			}
		}
		if len(tags) > 2 {
			tags = tags[:2]
		}
		return base + "[" + strings.Join(tags, ",") + "]"
	}
	return base
}

func check(c Case) pbt.Verdict {
	box.Silence()
	if len(c.Forms) == 0 && c.Src != "" {
		c.Forms = box.ParseForms(c.Src)
	}
	in := refmal.New()
	refmal.RegisterSentinels(in)
	refmal.RegisterAtoms(in)
	o := in.Run(c.Forms)
	if o.Aborted != "" {
		return pbt.Verdict{Excluded: "model-" + strings.SplitN(o.Aborted, ":", 2)[0], Labels: []string{"excluded:" + o.Aborted}}
	}
	e := box.CoreEnvWithAtoms()
	tr := box.AddTrace(e)
	box.AddSentinels(e)
	ctx, cancel := context.Background(), context.CancelFunc(func() {})
	switch c.Ctx {
	case 1:
		ctx, cancel = context.WithTimeout(context.Background(), 60*time.Second)
	case 2:
		ctx, cancel = context.WithCancel(context.Background())
	}
	defer cancel()
	var r box.Result
	for _, f := range c.Forms {
		src := val.Literal(f)
		r = box.Guard(func() (types.MalType, error) {
			ast, err := lisp.READ(src, nil, e)
			if err != nil {
				return nil, err
			}
			return lisp.EVAL(ctx, ast, e)
		})
		if r.Panicked || r.Err != nil {
			break
		}
	}
	if sig, msg := box.CompareOutcome(o, r); sig != "" {
		return pbt.Failf(classify(c, sig), "%s\nprogram:\n%s", msg, c.Text())
	}
	real := tr.Snapshot()
	if d := box.CompareTrace(in.Trace, real); d != "" {
		return pbt.Failf(classify(c, "effects-differ"), "%s\nprogram:\n%s", d, c.Text())
	}
	// identity of Go errors as seen from inside lisp (a handler traced the caught object)
	checkedIs := 0
	for i, mv := range in.Trace {
		if mv.K == val.GoErr && mv.S == "sentinel" {
			ge, ok := tr.Raw[i].(error)
			if !ok || !errors.Is(ge, box.Sentinel) {
				return pbt.Failf("go-error-identity-lost-in-handler", "handler saw %T %v, errors.Is(sentinel) false\nprogram:\n%s", tr.Raw[i], tr.Raw[i], c.Text())
			}
			checkedIs++
		}
	}
	if d := box.CompareGlobals(in, e, candidates); d != "" {
		return pbt.Failf("globals-differ", "%s\nprogram:\n%s", d, c.Text())
	}
	v := pbt.Verdict{Key: c.Text()}
	for _, u := range c.Uses {
		v.Labels = append(v.Labels, "uses:"+u)
	}
	if o.Thrown != nil {
		v.Labels = append(v.Labels, "outcome:uncaught")
		if o.Thrown.Go == "sentinel" {
			v.Labels = append(v.Labels, "uncaught:sentinel-errors.Is-checked")
		} else if o.Thrown.Go == "" {
			v.Labels = append(v.Labels, "uncaught:lisp-value-ErrorValue-checked")
		}
	} else {
		v.Labels = append(v.Labels, "outcome:value")
	}
	if checkedIs > 0 {
		v.Labels = append(v.Labels, "handler-saw-sentinel")
	}
	nTry := strings.Count(c.Text(), "(try ")
	v.NonTrivial = has(c.Uses, "throw") && (nTry >= 2 && (has(c.Uses, "throw-in-callee") || has(c.Uses, "cond")) ||
		has(c.Uses, "code-looking-datum") || (has(c.Uses, "finally") && (o.Thrown != nil || has(c.Uses, "handler-throws") || has(c.Uses, "handler-rethrows"))))
	_ = fmt.Sprint
	return v
}

var P = pbt.Prop[Case]{
	ID:    "C03",
	Gen:   genCase,
	Check: check,
	Show:  func(c Case) any { return c.Text() },
}

func TestMain(m *testing.M)   { pbt.Main(m) }
func TestProp(t *testing.T)   { pbt.Run(t, P) }
func TestCorpus(t *testing.T) { pbt.Corpus(t, P) }
func TestReplay(t *testing.T) { pbt.Replay(t, P) }
