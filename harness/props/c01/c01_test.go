package c01

import (
	"context"
	"os"
	"strconv"
	"strings"
	"testing"
	"time"

	"github.com/jig/lisp"
	"github.com/jig/lisp/types"
	"pgregory.net/rapid"

	"verifharness/internal/box"
	"verifharness/internal/gen"
	"verifharness/internal/pbt"
	"verifharness/internal/refmal"
	"verifharness/internal/val"
)

type Case struct {
	Forms []val.V
	Src   string `json:",omitempty"` // hand-written corpus cases: source text instead of Forms
	Uses  []string
	Ctx   int // 0: context.Background(), 1: deadline far away, 2: cancellable, no deadline
	Fuel  int
}

// Text of the whole program, one top-level form per line.
func (c Case) Text() string {
	ls := make([]string, len(c.Forms))
	for i, f := range c.Forms {
		ls[i] = val.Literal(f)
	}
	return strings.Join(ls, "\n")
}

var candidates = []string{"z", "m", "a", "b", "c", "x", "y", "n", "f", "k", "e", "err", "more", "r", "acc", "go", "v", "zz-unbound", "tmp"}

func genCase(t *rapid.T) Case {
	p := gen.Program(t, gen.PFlags{Cond: true})
	us := []string{}
	for u := range p.Uses {
		us = append(us, u)
	}
	return Case{Forms: p.Forms, Uses: us, Ctx: rapid.IntRange(0, 2).Draw(t, "ctxkind")}
}

func check(c Case) pbt.Verdict {
	box.Silence()
	if len(c.Forms) == 0 && c.Src != "" {
		c.Forms = box.ParseForms(c.Src)
	}
	in := refmal.New()
	if c.Fuel > 0 {
		in.Fuel = c.Fuel
		in.MaxDepth = 120
	}
	o := in.Run(c.Forms)
	if o.Aborted != "" {
		return pbt.Verdict{Excluded: "model-" + strings.SplitN(o.Aborted, ":", 2)[0], Labels: []string{"excluded:" + o.Aborted}}
	}
	e := box.CoreEnv()
	tr := box.AddTrace(e)
	ctx, cancel := context.Background(), context.CancelFunc(func() {})
	switch c.Ctx {
	case 1:
		ctx, cancel = context.WithTimeout(context.Background(), 60*time.Second)
	case 2:
		ctx, cancel = context.WithCancel(context.Background())
	}
	defer cancel()
	var r box.Result
	for _, f := range c.Forms {
		src := val.Literal(f)
		r = box.Guard(func() (types.MalType, error) {
			ast, err := lisp.READ(src, nil, e)
			if err != nil {
				return nil, err
			}
			return lisp.EVAL(ctx, ast, e)
		})
		if r.Panicked || r.Err != nil {
			break
		}
	}
	if sig, msg := box.CompareOutcome(o, r); sig != "" {
		return pbt.Failf(sig, "%s\nprogram:\n%s", msg, c.Text())
	}
	if d := box.CompareTrace(in.Trace, tr.Snapshot()); d != "" {
		return pbt.Failf("effects-differ", "%s\nprogram:\n%s", d, c.Text())
	}
	if d := box.CompareGlobals(in, e, candidates); d != "" {
		return pbt.Failf("globals-differ", "%s\nprogram:\n%s", d, c.Text())
	}
	v := pbt.Verdict{Key: c.Text()}
	kinds := 0
	for _, u := range c.Uses {
		v.Labels = append(v.Labels, "uses:"+u)
		switch u {
		case "closure-call", "shadowing", "rest-param", "recursion", "closure-capture", "inner-def", "shadow-builtin":
			kinds++
		}
	}
	if o.Thrown != nil {
		kinds++
		v.Labels = append(v.Labels, "outcome:error")
	} else {
		v.Labels = append(v.Labels, "outcome:value")
	}
	v.NonTrivial = len(in.Trace) >= 2 && kinds >= 2
	return v
}

var P = pbt.Prop[Case]{
	ID:    "C01",
	Gen:   genCase,
	Check: check,
	Show:  func(c Case) any { return c.Text() },
}

func TestMain(m *testing.M)   { pbt.Main(m) }
func TestProp(t *testing.T)   { pbt.Run(t, P) }
func TestCorpus(t *testing.T) { pbt.Corpus(t, P) }
func TestReplay(t *testing.T) { pbt.Replay(t, P) }

// ---- bounded-exhaustive enumeration over a reduced alphabet ----

var atoms = []val.V{
	val.Y("a"), val.Y("b"), val.Y("f"), val.I(0), val.I(1), val.N(),
	val.Y("def"), val.Y("let"), val.Y("if"), val.Y("do"), val.Y("fn"), val.Y("quote"),
	val.Y("+"), val.Y("="), val.Y("list"), val.Y("first"), val.Y("trace!"),
}

var memo = map[int][]val.V{}

// exprs returns every expression with exactly n nodes (an atom or a list counts 1 + children).
func exprs(n int) []val.V {
	if n <= 0 {
		return nil
	}
	if v, ok := memo[n]; ok {
		return v
	}
	out := []val.V{}
	if n == 1 {
		out = append(out, atoms...)
	}
	// lists: children sizes sum to n-1
	var seqs func(rem int) [][]val.V
	seqMemo := map[int][][]val.V{}
	seqs = func(rem int) [][]val.V {
		if rem == 0 {
			return [][]val.V{{}}
		}
		if v, ok := seqMemo[rem]; ok {
			return v
		}
		res := [][]val.V{}
		for first := 1; first <= rem; first++ {
			for _, h := range exprs(first) {
				for _, tail := range seqs(rem - first) {
					res = append(res, append([]val.V{h}, tail...))
				}
			}
		}
		seqMemo[rem] = res
		return res
	}
	for _, s := range seqs(n - 1) {
		out = append(out, val.V{K: val.List, L: s})
	}
	memo[n] = out
	return out
}

func TestEnum(t *testing.T) {
	maxN := 4
	if v := os.Getenv("VERIF_ENUM_N"); v != "" {
		maxN, _ = strconv.Atoi(v)
	}
	shard, _ := strconv.Atoi(os.Getenv("VERIF_SHARD"))
	shards, _ := strconv.Atoi(os.Getenv("VERIF_SHARDS"))
	if shards <= 0 {
		shards = 1
	}
	total := 0
	for n := 1; n <= maxN; n++ {
		for i, e := range exprs(n) {
			if i%shards != shard {
				continue
			}
			total++
			if !pbt.RunOne(t, P, Case{Forms: []val.V{e}, Fuel: 3000}) {
				return
			}
		}
	}
	pbt.Exhaustive("all programs with <= "+strconv.Itoa(maxN)+" nodes over {a b f 0 1 nil def let if do fn quote + = list first trace!}", total)
}
