package c01

import (
	"context"
	"os"
	"strconv"
	"strings"
	"testing"
	"time"

	"github.com/jig/lisp"
	"github.com/jig/lisp/types"
	"pgregory.net/rapid"

	"verifharness/internal/box"
	"verifharness/internal/gen"
	"verifharness/internal/pbt"
	"verifharness/internal/refmal"
	"verifharness/internal/val"
)

type Case struct {
	Forms []val.V
	Src   string `json:",omitempty"` // hand-written corpus cases: source text instead of Forms
	Uses  []string
	Ctx   int // 0: context.Background(), 1: deadline far away, 2: cancellable, no deadline
	Fuel  int
}

// Text of the whole program, one top-level form per line.
func (c Case) Text() string {
	ls := make([]string, len(c.Forms))
	for i, f := range c.Forms {
		ls[i] = val.Literal(f)
	}
	return strings.Join(ls, "\n")
}

var candidates = []string{"z", "m", "a", "b", "c", "x", "y", "n", "f", "k", "e", "err", "more", "r", "acc", "go", "v", "zz-unbound", "tmp"}

func genCase(t *rapid.T) Case {
	p := gen.Program(t, gen.PFlags{Cond: true})
	us := []string{}
	for u := range p.Uses {
		us = append(us, u)
	}
	return Case{Forms: p.Forms, Uses: us, Ctx: rapid.IntRange(0, 2).Draw(t, "ctxkind")}
}

func check(c Case) pbt.Verdict {
	box.Silence()
	if len(c.Forms) == 0 && c.Src != "" {
		c.Forms = box.ParseForms(c.Src)
	}
	in := refmal.New()
	if c.Fuel > 0 {
		in.Fuel = c.Fuel
		in.MaxDepth = 120
	}
	o := in.Run(c.Forms)
	if o.Aborted != "" {
		return pbt.Verdict{Excluded: "model-" + strings.SplitN(o.Aborted, ":", 2)[0], Labels: []string{"excluded:" + o.Aborted}}
	}
	e := box.CoreEnv()
	tr := box.AddTrace(e)
	ctx, cancel := context.Background(), context.CancelFunc(func() {})
	switch c.Ctx {
	case 1:
		ctx, cancel = context.WithTimeout(context.Background(), 60*time.Second)
	case 2:
		ctx, cancel = context.WithCancel(context.Background())
	}
	defer cancel()
	var r box.Result
	for _, f := range c.Forms {
		src := val.Literal(f)
		r = box.Guard(func() (types.MalType, error) {
			ast, err := lisp.READ(src, nil, e)
			if err != nil {
				return nil, err
			}
			return lisp.EVAL(ctx, ast, e)
		})
		if r.Panicked || r.Err != nil {
			break
		}
	}
	if sig, msg := box.CompareOutcome(o, r); sig != "" {
		return pbt.Failf(sig, "%s\nprogram:\n%s", msg, c.Text())
	}
	if d := box.CompareTrace(in.Trace, tr.Snapshot()); d != "" {
		return pbt.Failf("effects-differ", "%s\nprogram:\n%s", d, c.Text())
	}
	if d := box.CompareGlobals(in, e, candidates); d != "" {
		return pbt.Failf("globals-differ", "%s\nprogram:\n%s", d, c.Text())
	}
	v := pbt.Verdict{Key: c.Text()}
	kinds := 0
	for _, u := range c.Uses {
		v.Labels = append(v.Labels, "uses:"+u)
		switch u {
		case "closure-call", "shadowing", "rest-param", "recursion", "closure-capture", "inner-def", "shadow-builtin":
			kinds++
		}
	}
	if o.Thrown != nil {
		kinds++
		v.Labels = append(v.Labels, "outcome:error")
	} else {
		v.Labels = append(v.Labels, "outcome:value")
	}
	v.NonTrivial = len(in.Trace) >= 2 && kinds >= 2
	return v
}

var P = pbt.Prop[Case]{
	ID:    "C01",
	Gen:   genCase,
	Check: check,
	Show:  func(c Case) any { return c.Text() },
}

func TestMain(m *testing.M)   { pbt.Main(m) }
func TestProp(t *testing.T)   { pbt.Run(t, P) }
func TestCorpus(t *testing.T) { pbt.Corpus(t, P) }
func TestReplay(t *testing.T) { pbt.Replay(t, P) }

// ---- bounded-exhaustive enumeration over a reduced alphabet ----

var atoms = []val.V{
	val.Y("a"), val.Y("b"), val.Y("f"), val.I(0), val.I(1), val.N(),
	val.Y("def"), val.Y("let"), val.Y("if"), val.Y("do"), val.Y("fn"), val.Y("quote"),
	val.Y("+"), val.Y("="), val.Y("list"), val.Y("first"), val.Y("trace!"),
}

// each calls f for every expression with exactly n nodes (an atom or a list counts 1 + its
// children), without materialising the whole set (there are 3.3 million of size 6).
func each(n int, f func(val.V) bool) bool {
	if n <= 0 {
		return true
	}
	if n == 1 {
		for _, a := range atoms {
			if !f(a) {
				return false
			}
		}
	}
	return eachSeq(n-1, func(seq []val.V) bool {
		return f(val.V{K: val.List, L: append([]val.V{}, seq...)})
	})
}

// eachSeq calls f for every sequence of expressions whose sizes sum to rem.
func eachSeq(rem int, f func([]val.V) bool) bool {
	if rem == 0 {
		return f(nil)
	}
	for first := 1; first <= rem; first++ {
		ok := each(first, func(h val.V) bool {
			return eachSeq(rem-first, func(tail []val.V) bool {
				return f(append([]val.V{h}, tail...))
			})
		})
		if !ok {
			return false
		}
	}
	return true
}

func TestEnum(t *testing.T) {
	maxN := 4
	if v := os.Getenv("VERIF_ENUM_N"); v != "" {
		maxN, _ = strconv.Atoi(v)
	}
	shard, _ := strconv.Atoi(os.Getenv("VERIF_SHARD"))
	shards, _ := strconv.Atoi(os.Getenv("VERIF_SHARDS"))
	if shards <= 0 {
		shards = 1
	}
	total, i := 0, 0
	for n := 1; n <= maxN; n++ {
		ok := each(n, func(e val.V) bool {
			i++
			if i%shards != shard {
				return true
			}
			total++
			return pbt.RunOne(t, P, Case{Forms: []val.V{e}, Fuel: 3000})
		})
		if !ok {
			return
		}
	}
	pbt.Exhaustive("all programs with <= "+strconv.Itoa(maxN)+" nodes over {a b f 0 1 nil def let if do fn quote + = list first trace!}", total)
}
