package c17

import (
	"context"
	"fmt"
	"strings"
	"testing"
	"time"

	"github.com/jig/lisp"
	"github.com/jig/lisp/types"
	"pgregory.net/rapid"

	"verifharness/internal/box"
	"verifharness/internal/gen"
	"verifharness/internal/pbt"
)

// Case: the program text, how the module name is given, and where the planted fault is.
type Case struct {
	Text      string
	Module    string
	Header    bool // module given by a ";; $MODULE name" first line instead of a cursor
	FaultLine int  // 1-based line on which the faulty expression starts
	TopBegin  int  // line range of the top-level form that textually contains the fault
	TopEnd    int
	Fault     string
	Wrappers  []string
	Deferred  bool
	// another text is read (by the host, under another module name) after the program was read and before it is evaluated
	InterRead bool `json:",omitempty"`
	// the same text was read before under another module name (a rule file deployed for two tenants)
	ReadBefore bool `json:",omitempty"`
}

const mark = "\x01"

var faults = []string{"param-q", "zz-undefined", "(throw \"boom\")", "(nth [1] 9)", "(/ 1 0)", "(assert false)", "(throw {:code 7})", "(first 5)", "(zz-undefined-fn 1)", "(-> [1] (nth 9))", "(->> 9 (nth [1]))",
	// builtins that fail inside text read at run time (the inner error has coordinates of that text)
	"(read-string \"(1 2\")", "(eval (read-string \"(zz-undefined-inner 1)\"))", "(eval (read-string \"\\n\\n(nth [1] 9)\"))", "(read-string \"\\n\\n\\n\\n\\n\\n\\n\\n\\n)\")",
	// threading steps written as bare names (the failing call is assembled by the macro)
	"(-> 5 first)", "(-> [[5]] first first first)", "(->> [1] count keys)", "(apply nth [[1] 9])", "(eval (list 'nth [1] 9))", "(eval '(zz-undefined 1))",
	// the failing form is the list a reader macro stands for
	"@5", "@\"not an atom\"", "@[1]", "^{:a 1} 5",
	// the failing call is the rest list of a macro whose only parameter is & form and which returns it as it is
	"(call-it nth [1] 9)", "(call-it first 5)"}

type wrapper struct {
	name string
	text string // contains HOLE
}

var wrappers = []wrapper{
	{"let", "(let (a 1\n      b 2)\n  HOLE)"},
	{"let-binding", "(let (a HOLE)\n  a)"},
	{"if-then", "(if true\n  HOLE\n  0)"},
	{"if-else", "(if nil 0\n  HOLE)"},
	{"if-cond", "(if HOLE 1 2)"},
	{"do", "(do\n  1 ; comment )\n\n  HOLE)"},
	{"vector-literal", "[1\n HOLE\n 3]"},
	{"map-literal", "{:k\n HOLE}"},
	{"cond", "(cond false 1\n      true HOLE)"},
	{"cond-test", "(cond\n  HOLE 1)"},
	{"and", "(and true\n     HOLE)"},
	{"or", "(or false\n    HOLE)"},
	{"thread-operand", "(-> 1\n    (+ HOLE))"},
	{"argument", "(+ 1\n   HOLE)"},
	{"list-argument", "(list 1 2\n  HOLE 4)"},
	{"handler", "(try (throw 1)\n  (catch e\n    HOLE))"},
	{"try-body-finally", "(try\n  HOLE\n  (finally 1))"},
	{"inline-lambda", "((fn (x)\n   HOLE) 1)"},
	{"map-inline", "(map (fn (x)\n       HOLE) [1])"},
	{"apply-inline", "(apply (fn ()\n         HOLE) [])"},
	{"update-inline", "(update {:a 1} :a (fn (x)\n  HOLE))"},
	{"def-value", "(def tmp-v\n  HOLE)"},
	{"nested-fn-called", "((fn ()\n   (do 1\n     HOLE)))"},
}

var fillers = []string{
	"(def f%d 1)",
	"; a comment with ( [ { \"\n(def f%d 2)",
	"\n\n(def f%d 3)",
	"(def f%d\n  (fn (x)\n    (+ x 1)))",
	"(def f%d ¬raw line 1\nraw ( line 2\nraw ] line 3¬)",
	"(def f%d [1\n  2\n  {:a\n   1}\n  3])",
	";; $x 1\n(def f%d \"a\\nb\")",
	"(def f%d (let (a 1)\n  ; inner comment\n  (+ a\n     1)))",
	"(defmacro m%d (fn (x)\n  `(list ~x\n     1)))",
	"(def f%d (read-string \"(a b c d e f g h i j k l m n o p q r s t u v w x y z a b c d e f g h i j k l m n o p q r s t u v w x y z)\"))",
	"(def f%d (count (read-string \"[1 2 3 4 5 6 7 8 9 10 11 12 13 14 15 16 17 18 19 20 21 22 23 24 25 26 27 28 29 30 31 32 33 34 35 36 37 38 39 40 41 42 43 44 45 46 47 48 49 50]\")))",
}

func genCase(t *rapid.T) Case {
	c := Case{Module: rapid.SampledFrom([]string{"mod/a.lisp", "m", "../x y.lisp"}).Draw(t, "module")}
	c.Header = gen.Uniform(t, "header", 3) == 0
	c.Fault = faults[gen.Uniform(t, "fault", len(faults))]
	// the faulty expression, wrapped
	expr := mark + c.Fault
	nw := gen.Uniform(t, "nwrap", 5)
	for i := 0; i < nw; i++ {
		w := wrappers[gen.Uniform(t, "wrapper", len(wrappers))]
		c.Wrappers = append(c.Wrappers, w.name)
		// indent continuation lines of the inner expression a little, as an editor would
		expr = strings.Replace(w.text, "HOLE", expr, 1)
	}
	c.Deferred = gen.Uniform(t, "deferred", 3) == 0
	var forms []string
	if strings.HasPrefix(c.Fault, "(call-it ") {
		forms = append(forms, "(defmacro call-it (fn (& form)\n  form))")
	}
	if c.Fault == "param-q" {
		// the undefined name also occurs earlier in the text, legally, as a parameter
		forms = append(forms, "(def uses-param (fn (param-q)\n  (+ param-q 1)))")
	}
	nf := gen.Uniform(t, "nfill", 5)
	for i := 0; i < nf; i++ {
		forms = append(forms, fmt.Sprintf(fillers[gen.Uniform(t, "filler", len(fillers))], i))
	}
	faulty := expr
	var later []string
	if c.Deferred {
		switch gen.Uniform(t, "defkind", 10) {
		case 9: // the later call is the initialiser of a def (an error without a position must not pick up that def's)
			faulty = "(def later-fn (fn (p)\n  " + expr + "))"
			later = append(later, "(def later-result\n  (later-fn\n    1))")
		case 7, 8: // the fault runs while a macro, defined here, expands a call that stands in a later form
			faulty = "(defmacro later-m (fn (p)\n  (do\n    " + expr + "\n    p)))"
			if gen.Uniform(t, "mlater", 2) == 0 {
				later = append(later, "(later-m 1)")
			} else {
				later = append(later, "(let (z 2)\n  (list z\n    (later-m 1)))")
			}
		case 4: // the later call is the body of a try without catch
			faulty = "(def later-fn (fn (p)\n  " + expr + "))"
			later = append(later, "(try\n  (later-fn 1)\n  (finally\n    1))")
		case 5:
			faulty = "(def later-fn (fn (p)\n  " + expr + "))"
			later = append(later, "(try (do 1\n  (later-fn 1)))")
		case 6: // … and some text is read at run time in between
			faulty = "(def later-fn (fn (p)\n  " + expr + "))"
			later = append(later, "(do (read-string \"(q w e r t y u i o p a s d f g h j k l z x c v b n m q w e r t y u i o p a s d f g h j k l z x c v b n m)\")\n  (later-fn 1))")
		case 3: // the later call is the initialiser of a let binding
			faulty = "(def later-fn (fn (p)\n  " + expr + "))"
			later = append(later, "(let (r (later-fn 1)\n      s 2)\n  (list r s))")
		case 0:
			faulty = "(def later-fn (fn (p)\n  " + expr + "))"
			later = append(later, "(later-fn 1)")
		case 1:
			faulty = "(def later-fn\n  (let (k 1)\n    (fn ()\n      " + expr + ")))"
			later = append(later, "(do 1\n  (later-fn))")
		default:
			faulty = "(def later-fn (fn (p)\n  (if p\n    " + expr + "\n    0)))"
			later = append(later, "(let (q 2)\n  (later-fn q))")
		}
	}
	forms = append(forms, faulty)
	na := gen.Uniform(t, "nafter", 4)
	for i := 0; i < na; i++ {
		forms = append(forms, fmt.Sprintf(fillers[gen.Uniform(t, "filler2", len(fillers))], 100+i))
		if i == 0 && len(later) > 0 && gen.Uniform(t, "laterpos", 2) == 0 {
			forms = append(forms, later...)
			later = nil
		}
	}
	forms = append(forms, later...)
	var sb strings.Builder
	if c.Header {
		sb.WriteString(";; $MODULE " + c.Module + "\n")
	}
	if !c.Header && gen.Chance(t, "modulecomment", 5) {
		// with a cursor that names the module, a first line that looks like the load-file header is only a comment
		sb.WriteString(";; $MODULE scratch/old-notes.lisp\n")
	}
	sb.WriteString(rapid.SampledFrom([]string{"", "", "\n", "\n\n\n", "; first line comment\n", "\r\n"}).Draw(t, "lead"))
	sb.WriteString("(do")
	sep := rapid.SampledFrom([]string{"\n", "\n  ", "\n\n", "\r\n", " "}).Draw(t, "sep")
	for _, f := range forms {
		sb.WriteString(sep)
		if strings.Contains(f, mark) {
			before := sb.String()
			c.TopBegin = 1 + strings.Count(before, "\n")
			pre := f[:strings.Index(f, mark)]
			c.FaultLine = c.TopBegin + strings.Count(pre, "\n")
			c.TopEnd = c.TopBegin + strings.Count(f, "\n")
			f = strings.Replace(f, mark, "", 1)
		}
		sb.WriteString(f)
	}
	sb.WriteString(rapid.SampledFrom([]string{")", "\n)", "\n)\n", " ) ; end"}).Draw(t, "close"))
	c.Text = sb.String()
	c.InterRead = gen.Chance(t, "interread", 3)
	c.ReadBefore = !c.Header && gen.Chance(t, "readbefore", 4)
	return c
}

func check(c Case) pbt.Verdict {
	box.Silence()
	e := box.FullEnv()
	ctx, cancel := context.WithTimeout(context.Background(), 10*time.Second)
	defer cancel()
	var cursor *types.Position
	if !c.Header {
		cursor = types.NewCursorFile(c.Module)
	}
	if c.ReadBefore {
		box.Guard(func() (types.MalType, error) {
			return lisp.READ(c.Text, types.NewCursorFile("tenants/other/rules.lisp"), e)
		})
	}
	r := box.Guard(func() (types.MalType, error) {
		ast, err := lisp.READ(c.Text, cursor, e)
		if err != nil {
			return nil, fmt.Errorf("READ: %w", err)
		}
		if c.InterRead {
			// the host parses another, longer script before it evaluates this one
			var other strings.Builder
			for i := 0; i < 40; i++ {
				other.WriteString(fmt.Sprintf("\n(def other-%d (fn (a b c) (list a b c other-unbound-%d)))", i, i))
			}
			if _, err := lisp.READ("(do"+other.String()+")", types.NewCursorFile("other/script.lisp"), e); err != nil {
				return nil, fmt.Errorf("READ: %w", err)
			}
		}
		return lisp.EVAL(ctx, ast, e)
	})
	v := pbt.Verdict{Key: c.Text + fmt.Sprint(c.InterRead, c.ReadBefore), Labels: []string{"fault:" + c.Fault}}
	if c.InterRead {
		v.Labels = append(v.Labels, "another-text-read-in-between")
	}
	for _, w := range c.Wrappers {
		v.Labels = append(v.Labels, "wrapper:"+w)
	}
	if r.Panicked {
		return pbt.Failf("panic:"+r.PanicSite, "panic %v on\n%s", r.PanicVal, c.Text)
	}
	if r.Err == nil {
		return pbt.Failf("harness:no-error", "the planted fault %s did not fail\n%s", c.Fault, c.Text)
	}
	if strings.HasPrefix(r.Err.Error(), "READ:") {
		return pbt.Failf("harness:unreadable", "generated text does not read: %v\n%s", r.Err, c.Text)
	}
	pe, ok := r.Err.(interface{ Position() *types.Position })
	if !ok || pe.Position() == nil {
		v.Labels = append(v.Labels, "no-position:"+c.Fault)
		v.Excluded = "no-position"
		return v
	}
	pos := pe.Position()
	where := fmt.Sprintf("fault %s planted at line %d inside the top-level form spanning lines %d…%d (wrappers %v, deferred=%v); reported position module=%q rows %d…%d\n%s",
		c.Fault, c.FaultLine, c.TopBegin, c.TopEnd, c.Wrappers, c.Deferred, pos.StringModule(), pos.BeginRow, pos.Row, numbered(c.Text))
	if pos.Module == nil || *pos.Module != c.Module {
		return pbt.Failf("wrong-module", "position does not name module %q: %s", c.Module, where)
	}
	if pos.BeginRow < c.TopBegin || pos.Row > c.TopEnd {
		return pbt.Failf("outside-top-level-form", "position is outside the top-level form that contains the fault: %s", where)
	}
	if !(pos.BeginRow <= c.FaultLine && c.FaultLine <= pos.Row) {
		return pbt.Failf("does-not-cover-fault-line", "position does not cover the line on which the faulty expression starts: %s", where)
	}
	v.Labels = append(v.Labels, "position-checked")
	multiBefore := strings.Contains(c.Text[:strings.Index(c.Text, c.Fault)], "raw ( line") || strings.Contains(c.Text[:strings.Index(c.Text, c.Fault)], "{:a\n")
	v.NonTrivial = c.FaultLine >= 5 && multiBefore && (len(c.Wrappers) >= 2 || c.Deferred)
	return v
}

func numbered(s string) string {
	var sb strings.Builder
	for i, l := range strings.Split(s, "\n") {
		sb.WriteString(fmt.Sprintf("%3d| %s\n", i+1, l))
	}
	return sb.String()
}

var P = pbt.Prop[Case]{
	ID:    "C17",
	Gen:   genCase,
	Check: check,
	Show: func(c Case) any {
		return map[string]any{"text": c.Text, "fault_line": c.FaultLine, "top": []int{c.TopBegin, c.TopEnd}, "module_by_header": c.Header}
	},
}

func TestMain(m *testing.M)   { pbt.Main(m) }
func TestProp(t *testing.T)   { pbt.Run(t, P) }
func TestCorpus(t *testing.T) { pbt.Corpus(t, P) }
func TestReplay(t *testing.T) { pbt.Replay(t, P) }
