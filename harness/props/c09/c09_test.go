package c09

import (
	"context"
	"fmt"
	"strings"
	"sync"
	"sync/atomic"
	"testing"
	"time"

	"github.com/anishathalye/porcupine"
	"github.com/jig/lisp"
	"github.com/jig/lisp/lib/call"
	"github.com/jig/lisp/types"
	"pgregory.net/rapid"

	"verifharness/internal/box"
	"verifharness/internal/gen"
	"verifharness/internal/pbt"
	"verifharness/internal/val"
)

// Op: one atom operation issued by a thread (or inline by the scheduler).
type Op struct {
	Kind  string // deref reset add fail addself addother resetother gensym memo
	Atom  int
	Arg   int
	Other int
	Gate  int // -1: none; otherwise the update function first calls (gate! Gate)
}

// Ev: one scheduler step.
type Ev struct {
	Kind   string // start await release inline cancel sleep
	Thread int    `json:",omitempty"`
	Gate   int    `json:",omitempty"`
	Op     *Op    `json:",omitempty"`
	Ms     int    `json:",omitempty"`
}

type Case struct {
	Atoms   int
	Threads [][]Op
	Sched   []Ev
}

const initial = 10
const resetLoopN = 1500
const nGates = 3

func (o Op) text() string {
	a := fmt.Sprintf("a%d", o.Atom)
	g := ""
	if o.Gate >= 0 {
		g = fmt.Sprintf("(gate! %d) ", o.Gate)
	}
	switch o.Kind {
	case "deref":
		return "@" + a
	case "reset":
		return fmt.Sprintf("(reset! %s %d)", a, o.Arg)
	case "add":
		if o.Gate < 0 {
			return fmt.Sprintf("(swap! %s + %d)", a, o.Arg)
		}
		return fmt.Sprintf("(swap! %s (fn (x) (do %s(+ x %d))))", a, g, o.Arg)
	case "fail":
		return fmt.Sprintf("(swap! %s (fn (x) (do %s(throw \"boom\"))))", a, g)
	case "addself":
		return fmt.Sprintf("(swap! %s (fn (x) (do %s(+ (+ x (- @%s @%s)) %d))))", a, g, a, a, o.Arg)
	case "addother":
		return fmt.Sprintf("(swap! %s (fn (x) (do %s(+ x (h-deref %d)))))", a, g, o.Other)
	case "resetother":
		return fmt.Sprintf("(swap! %s (fn (x) (do %s(h-reset! %d %d) (+ x 1))))", a, g, o.Other, o.Arg)
	case "derefself":
		// the update function reads the atom it is applied to (a recorded read of its own)
		return fmt.Sprintf("(swap! %s (fn (x) (do %s(h-deref %d) (+ x %d))))", a, g, o.Atom, o.Arg)
	case "swapother":
		// the update function swaps another atom (it may run more than once: each run swaps)
		return fmt.Sprintf("(swap! %s (fn (x) (do %s(h-swap-add! %d %d) (+ x 1))))", a, g, o.Other, o.Arg)
	case "setrest":
		// a variadic update function that keeps its rest arguments as the new value
		return fmt.Sprintf("(swap! %s (fn (old & xs) xs) %d %d %d)", a, o.Arg, o.Arg+1, o.Arg+2)
	case "resetloop":
		// many reset!s in a row, each checked against its argument; the result is the list of mismatches
		// (on an atom of its own, a3: the intermediate values are nobody else's business)
		return fmt.Sprintf("(reduce (fn (bad i) (let (v (+ %d i)) (if (= (reset! a3 v) v) bad (cons v bad)))) (list) (range 0 %d))", 100000*(o.Arg+10*o.Atom), resetLoopN)
	case "falsyswap":
		// update functions whose result is nil or false (a lisp function, a builtin) on an atom of the evaluation's own:
		// the falsy result is installed like any other, and read back
		return fmt.Sprintf("(let (z (atom [%d])) (list (swap! z (fn (x) nil)) @z (reset! z []) (swap! z first) @z (swap! z (fn (x) false)) @z))", o.Arg)
	case "resetseq":
		return fmt.Sprintf("(reset! %s %s)", a, seqValues[o.Arg%len(seqValues)].src)
	case "conj":
		return fmt.Sprintf("(swap! %s conj %d)", a, o.Arg)
	case "addcancel":
		// the update function's last step is a Go builtin that parks (ignoring the context) and then returns
		return fmt.Sprintf("(swap! %s (fn (x) (hold-add! %d x %d)))", a, o.Gate, o.Arg)
	case "gensym":
		return "(str (gensym))"
	case "memo":
		return fmt.Sprintf("(memo-sq %d)", o.Arg)
	}
	return "nil"
}

var seqValues = []struct {
	src string
	v   val.V
}{
	{"[1 2]", val.Vc(val.I(1), val.I(2))},
	{"(list 1 2)", val.L(val.I(1), val.I(2))},
	{"[1 2 3]", val.Vc(val.I(1), val.I(2), val.I(3))},
	{"(list)", val.L()},
}

// ---- generation ----

func genOp(t *rapid.T, atoms int, allowGate bool) Op {
	o := Op{Gate: -1, Atom: gen.Uniform(t, "atom", atoms), Arg: 1 + gen.Uniform(t, "arg", 5)}
	kinds := []string{"deref", "deref", "reset", "add", "add", "add", "fail", "addself", "addother", "resetother", "swapother", "derefself", "derefself", "gensym", "memo", "resetseq", "resetseq", "conj", "setrest", "setrest", "resetloop", "falsyswap"}
	o.Kind = kinds[gen.Uniform(t, "kind", len(kinds))]
	if atoms < 2 && (o.Kind == "addother" || o.Kind == "resetother" || o.Kind == "swapother") {
		o.Kind = "add"
	}
	if o.Kind == "addother" || o.Kind == "resetother" || o.Kind == "swapother" {
		o.Other = (o.Atom + 1 + gen.Uniform(t, "other", atoms-1)) % atoms
	}
	if o.Kind == "reset" {
		o.Arg = 100 + gen.Uniform(t, "resetv", 50)
	}
	if o.Kind == "resetseq" {
		o.Arg = gen.Uniform(t, "seqv", len(seqValues))
	}
	switch o.Kind {
	case "add", "fail", "addself", "addother", "resetother", "swapother", "derefself":
		if allowGate && gen.Uniform(t, "gated", 2) == 0 {
			o.Gate = gen.Uniform(t, "gate", nGates)
		}
	}
	return o
}

func genCase(t *rapid.T) Case {
	c := Case{Atoms: 1 + gen.Uniform(t, "atoms", 3)}
	if gen.Uniform(t, "pattern", 5) == 0 {
		// contended swap: one gated swap that reads its own atom, the scheduler keeps
		// installing new values while the update function is parked
		k := []int{1, 2, 3, 9, 12}[gen.Uniform(t, "rounds", 5)]
		kind := []string{"addself", "add", "addother", "derefself", "derefself"}[gen.Uniform(t, "ckind", 5)]
		if c.Atoms < 2 && kind == "addother" {
			kind = "addself"
		}
		c.Threads = [][]Op{{{Kind: kind, Atom: 0, Arg: 1, Other: 1 % c.Atoms, Gate: 0}, {Kind: "deref", Atom: 0, Gate: -1}}}
		c.Sched = append(c.Sched, Ev{Kind: "start", Thread: 0})
		for i := 0; i < k; i++ {
			op := Op{Kind: "reset", Atom: 0, Arg: 200 + i, Gate: -1}
			if gen.Uniform(t, "inlinekind", 3) == 0 {
				op = Op{Kind: "add", Atom: 0, Arg: 1, Gate: -1}
			}
			// wait until the update function is parked (it has read the value), change the atom, let it go on
			c.Sched = append(c.Sched, Ev{Kind: "await", Gate: 0}, Ev{Kind: "inline", Op: &op}, Ev{Kind: "release", Gate: 0})
		}
		return c
	}
	if gen.Uniform(t, "pattern2", 8) == 0 {
		// a swap whose evaluation is cancelled while its update function is parked and that loses the race
		c.Threads = [][]Op{{{Kind: "addcancel", Atom: 0, Arg: 1, Gate: 0}, {Kind: "deref", Atom: 0, Gate: -1}}, {{Kind: "deref", Atom: 0, Gate: -1}, {Kind: "add", Atom: 0, Arg: 2, Gate: -1}}}
		op := Op{Kind: "reset", Atom: 0, Arg: 300, Gate: -1}
		c.Sched = []Ev{{Kind: "start", Thread: 0}, {Kind: "await", Gate: 0}}
		if gen.Uniform(t, "lose", 3) > 0 {
			c.Sched = append(c.Sched, Ev{Kind: "inline", Op: &op})
		}
		if gen.Uniform(t, "docancel", 3) > 0 {
			c.Sched = append(c.Sched, Ev{Kind: "cancel", Thread: 0})
		}
		c.Sched = append(c.Sched, Ev{Kind: "release", Gate: 0}, Ev{Kind: "start", Thread: 1})
		return c
	}
	if gen.Uniform(t, "pattern3", 10) == 0 {
		// crosswise: two (or three, in a ring) evaluations are inside their update functions at the same time and
		// each then swaps the atom the next one is swapping
		n := 2 + gen.Uniform(t, "ring", 2)
		c.Atoms = 3
		for i := 0; i < n; i++ {
			c.Threads = append(c.Threads, []Op{{Kind: "swapother", Atom: i, Other: (i + 1) % n, Arg: 1 + i, Gate: i}, {Kind: "deref", Atom: i, Gate: -1}})
			c.Sched = append(c.Sched, Ev{Kind: "start", Thread: i}, Ev{Kind: "await", Gate: i})
		}
		for i := 0; i < n; i++ {
			c.Sched = append(c.Sched, Ev{Kind: "release", Gate: i})
		}
		return c
	}
	if gen.Uniform(t, "pattern4", 12) == 0 {
		// many evaluations (more than there are processors) are inside update functions at once, each about to
		// swap another atom
		n := 24
		c.Atoms = 3
		for i := 0; i < n; i++ {
			c.Threads = append(c.Threads, []Op{{Kind: "swapother", Atom: i % 2, Other: 2, Arg: 1, Gate: 0}})
			c.Sched = append(c.Sched, Ev{Kind: "start", Thread: i})
		}
		for i := 0; i < n; i++ {
			c.Sched = append(c.Sched, Ev{Kind: "await", Gate: 0})
		}
		for i := 0; i < n; i++ {
			c.Sched = append(c.Sched, Ev{Kind: "release", Gate: 0})
		}
		return c
	}
	nt := 2 + gen.Uniform(t, "threads", 5)
	for i := 0; i < nt; i++ {
		n := 1 + gen.Uniform(t, "nops", 6)
		th := []Op{}
		for j := 0; j < n; j++ {
			th = append(th, genOp(t, c.Atoms, true))
		}
		c.Threads = append(c.Threads, th)
	}
	// schedule: start every thread at some point, release gates in a generated order, a few inline ops
	for i := 0; i < nt; i++ {
		c.Sched = append(c.Sched, Ev{Kind: "start", Thread: i})
	}
	extra := gen.Uniform(t, "nextra", 10)
	for i := 0; i < extra; i++ {
		switch gen.Uniform(t, "evkind", 5) {
		case 4:
			c.Sched = append(c.Sched, Ev{Kind: "await", Gate: gen.Uniform(t, "agate", nGates)})
		case 0, 1:
			c.Sched = append(c.Sched, Ev{Kind: "release", Gate: gen.Uniform(t, "rgate", nGates)})
		case 2:
			op := genOp(t, c.Atoms, false)
			c.Sched = append(c.Sched, Ev{Kind: "inline", Op: &op})
		default:
			c.Sched = append(c.Sched, Ev{Kind: "sleep", Ms: 1 + gen.Uniform(t, "ms", 3)})
		}
	}
	// shuffle by generated swaps (starts may come late)
	for i := len(c.Sched) - 1; i > 0; i-- {
		j := gen.Uniform(t, "shuffle", i+1)
		c.Sched[i], c.Sched[j] = c.Sched[j], c.Sched[i]
	}
	return c
}

// ---- execution ----

type opIn struct {
	Kind string
	Atom int
	Arg  int
	Seq  string // resetseq: canonical text of the value
}
type opOut struct {
	Val string // canonical text of the returned value
	Err bool
}

func canonInt(i int) string { return val.Canon(val.I(i)) }

type gate struct {
	arrive  chan struct{}
	release chan struct{}
	open    atomic.Bool
}

type runner struct {
	cancels sync.Map // client -> context.CancelFunc of the operation in flight
	env     types.EnvType
	gates   []*gate
	mu      sync.Mutex
	hist    []porcupine.Operation
	syms    []string
	notes   []string
}

type tlocal struct {
	client      int
	lastRead    int
	lastReadInt bool
	nestedErr   bool // the (last) nested swap of another atom failed
	cancel      context.CancelFunc
}

type tlKey struct{}

func (r *runner) record(client int, in opIn, out opOut, callT, retT int64) {
	r.mu.Lock()
	r.hist = append(r.hist, porcupine.Operation{ClientId: client, Input: in, Output: out, Call: callT, Return: retT})
	r.mu.Unlock()
}

func newRunner(c Case, gatesOpen bool) *runner {
	r := &runner{env: box.FullEnv()}
	for i := 0; i < nGates; i++ {
		g := &gate{arrive: make(chan struct{}, 1024), release: make(chan struct{}, 1024)}
		g.open.Store(gatesOpen)
		r.gates = append(r.gates, g)
	}
	bg := context.Background()
	for i := 0; i < 4; i++ {
		if res := box.ReadEval(bg, fmt.Sprintf("(def a%d (atom %d))", i, initial), r.env); res.Err != nil {
			panic(res.Err)
		}
	}
	if res := box.ReadEval(bg, "(def memo-sq (memoize (fn (x) (* x x))))", r.env); res.Err != nil {
		panic(res.Err)
	}
	call.CallOverrideFN(r.env, "gate!", func(ctx context.Context, id int) (types.MalType, error) {
		g := r.gates[id]
		if g.open.Load() {
			return nil, nil
		}
		g.arrive <- struct{}{}
		for {
			select {
			case <-g.release:
				return nil, nil
			case <-ctx.Done():
				return nil, fmt.Errorf("gate: context done")
			case <-time.After(2 * time.Millisecond):
				if g.open.Load() {
					return nil, nil
				}
			}
		}
	})
	call.CallOverrideFN(r.env, "hold-add!", func(id, x, k int) (types.MalType, error) {
		g := r.gates[id]
		if !g.open.Load() {
			g.arrive <- struct{}{}
		wait:
			for {
				select {
				case <-g.release:
					break wait
				case <-time.After(2 * time.Millisecond):
					if g.open.Load() {
						break wait
					}
				}
			}
		}
		return x + k, nil
	})
	derefFn, _ := box.Lookup(r.env, "deref")
	resetFn, _ := box.Lookup(r.env, "reset!")
	atomOf := func(i int) types.MalType { v, _ := box.Lookup(r.env, fmt.Sprintf("a%d", i)); return v }
	swapFn, _ := box.Lookup(r.env, "swap!")
	plusFn, _ := box.Lookup(r.env, "+")
	call.CallOverrideFN(r.env, "h-swap-add!", func(ctx context.Context, i, k int) (types.MalType, error) {
		tl, _ := ctx.Value(tlKey{}).(*tlocal)
		t0 := time.Now().UnixNano()
		v, err := swapFn.(types.Func).Fn(ctx, []types.MalType{atomOf(i), plusFn, k})
		t1 := time.Now().UnixNano()
		cl := 99
		if tl != nil {
			cl = tl.client
			tl.nestedErr = err != nil
		}
		out := opOut{Err: err != nil}
		if err == nil {
			out.Val = val.Canon(val.From(v))
		}
		r.record(cl, opIn{Kind: "add", Atom: i, Arg: k}, out, t0, t1)
		return v, err
	})
	call.CallOverrideFN(r.env, "h-deref", func(ctx context.Context, i int) (types.MalType, error) {
		tl, _ := ctx.Value(tlKey{}).(*tlocal)
		t0 := time.Now().UnixNano()
		v, err := derefFn.(types.Func).Fn(ctx, []types.MalType{atomOf(i)})
		t1 := time.Now().UnixNano()
		if err != nil {
			return nil, err
		}
		cl := 99
		if tl != nil {
			cl = tl.client
			iv, ok := v.(int)
			tl.lastRead, tl.lastReadInt = iv, ok
		}
		r.record(cl, opIn{Kind: "deref", Atom: i}, opOut{Val: val.Canon(val.From(v))}, t0, t1)
		return v, nil
	})
	call.CallOverrideFN(r.env, "h-reset!", func(ctx context.Context, i, k int) (types.MalType, error) {
		tl, _ := ctx.Value(tlKey{}).(*tlocal)
		t0 := time.Now().UnixNano()
		v, err := resetFn.(types.Func).Fn(ctx, []types.MalType{atomOf(i), k})
		t1 := time.Now().UnixNano()
		if err != nil {
			return nil, err
		}
		cl := 99
		if tl != nil {
			cl = tl.client
		}
		r.record(cl, opIn{Kind: "reset", Atom: i, Arg: k}, opOut{Val: val.Canon(val.From(v))}, t0, t1)
		return v, nil
	})
	return r
}

// exec runs one top-level operation and records it. Returns a description of an unexpected outcome.
func (r *runner) exec(ctx context.Context, client int, o Op) string {
	opCtx, cancel := context.WithCancel(ctx)
	defer cancel()
	r.cancels.Store(client, cancel)
	tl := &tlocal{client: client}
	ctx = context.WithValue(opCtx, tlKey{}, tl)
	ast, err := lisp.READ(o.text(), nil, r.env)
	if err != nil {
		return "READ " + o.text() + ": " + err.Error()
	}
	t0 := time.Now().UnixNano()
	res := box.Eval(ctx, ast, r.env)
	t1 := time.Now().UnixNano()
	if res.Panicked {
		return fmt.Sprintf("%s panicked: %v", o.text(), res.PanicVal)
	}
	out := opOut{Err: res.Err != nil}
	if res.Err == nil {
		out.Val = val.Canon(val.From(res.Val))
	}
	switch o.Kind {
	case "gensym":
		if res.Err != nil {
			return fmt.Sprintf("%s failed: %v", o.text(), res.Err)
		}
		r.mu.Lock()
		r.syms = append(r.syms, fmt.Sprint(res.Val))
		r.mu.Unlock()
		return ""
	case "memo":
		if res.Err != nil || res.Val != o.Arg*o.Arg {
			return fmt.Sprintf("%s gave %v %v", o.text(), res.Val, res.Err)
		}
		return ""
	case "fail":
		if res.Err == nil {
			return fmt.Sprintf("%s returned %v instead of the update function's error", o.text(), res.Val)
		}
		r.record(client, opIn{Kind: "fail", Atom: o.Atom}, out, t0, t1)
		return ""
	case "deref":
		if res.Err != nil {
			return fmt.Sprintf("%s failed: %v", o.text(), res.Err)
		}
		r.record(client, opIn{Kind: "deref", Atom: o.Atom}, out, t0, t1)
	case "reset":
		if res.Err != nil {
			return fmt.Sprintf("%s failed: %v", o.text(), res.Err)
		}
		r.record(client, opIn{Kind: "reset", Atom: o.Atom, Arg: o.Arg}, out, t0, t1)
	case "resetseq":
		if res.Err != nil {
			return fmt.Sprintf("%s failed: %v", o.text(), res.Err)
		}
		r.record(client, opIn{Kind: "resetseq", Atom: o.Atom, Seq: val.Canon(seqValues[o.Arg%len(seqValues)].v)}, out, t0, t1)
	case "conj":
		r.record(client, opIn{Kind: "conj", Atom: o.Atom, Arg: o.Arg}, out, t0, t1)
	case "setrest":
		if res.Err != nil {
			return fmt.Sprintf("%s failed: %v", o.text(), res.Err)
		}
		r.record(client, opIn{Kind: "resetseq", Atom: o.Atom, Seq: val.Canon(val.L(val.I(o.Arg), val.I(o.Arg+1), val.I(o.Arg+2)))}, out, t0, t1)
	case "falsyswap":
		if res.Err != nil {
			return fmt.Sprintf("%s failed: %v", o.text(), res.Err)
		}
		if out.Val != "(nil nil [] nil nil false false)" {
			return fmt.Sprintf("%s: gives %s; every swap! returns the update function's result, nil and false included, and the next deref reads it: (nil nil [] nil nil false false)", o.text(), out.Val)
		}
		return ""
	case "resetloop":
		if res.Err != nil {
			return fmt.Sprintf("%s failed: %v", o.text(), res.Err)
		}
		if out.Val != "()" {
			return fmt.Sprintf("%s: reset! returned something else than its argument for the arguments %s", o.text(), out.Val)
		}
		return ""
	case "add", "addself", "derefself":
		// on an atom that currently holds a sequence the update function fails: the model decides
		r.record(client, opIn{Kind: "add", Atom: o.Atom, Arg: o.Arg}, out, t0, t1)
	case "addcancel":
		// the evaluation may have been cancelled: then the swap either installed its result or failed
		r.record(client, opIn{Kind: "add-or-fail", Atom: o.Atom, Arg: o.Arg}, out, t0, t1)
	case "addother":
		if !tl.lastReadInt {
			// the other atom held a sequence when the (last) application read it: (+ x <seq>) fails
			r.record(client, opIn{Kind: "fail", Atom: o.Atom}, out, t0, t1)
		} else {
			r.record(client, opIn{Kind: "add", Atom: o.Atom, Arg: tl.lastRead}, out, t0, t1)
		}
	case "resetother":
		r.record(client, opIn{Kind: "add", Atom: o.Atom, Arg: 1}, out, t0, t1)
	case "swapother":
		if tl.nestedErr {
			// the other atom held a sequence: the nested swap failed and with it the (last) application
			r.record(client, opIn{Kind: "fail", Atom: o.Atom}, out, t0, t1)
		} else {
			r.record(client, opIn{Kind: "add", Atom: o.Atom, Arg: 1}, out, t0, t1)
		}
	}
	return ""
}

// parse the canonical text of a model state
func stateOf(s string) (isInt bool, i int, isVec bool, elems []string) {
	if len(s) > 0 && (s[0] == '[' || s[0] == '(') {
		inner := strings.TrimSpace(s[1 : len(s)-1])
		if inner != "" {
			elems = strings.Fields(inner)
		}
		return false, 0, s[0] == '[', elems
	}
	fmt.Sscan(s, &i)
	return true, i, false, nil
}

var model = porcupine.Model{
	Partition: func(history []porcupine.Operation) [][]porcupine.Operation {
		m := map[int][]porcupine.Operation{}
		for _, op := range history {
			a := op.Input.(opIn).Atom
			m[a] = append(m[a], op)
		}
		out := [][]porcupine.Operation{}
		for _, v := range m {
			out = append(out, v)
		}
		return out
	},
	Init: func() interface{} { return canonInt(initial) },
	Step: func(state, input, output interface{}) (bool, interface{}) {
		s := state.(string)
		in, out := input.(opIn), output.(opOut)
		isInt, iv, isVec, elems := stateOf(s)
		switch in.Kind {
		case "deref":
			return !out.Err && out.Val == s, s
		case "reset":
			return !out.Err && out.Val == canonInt(in.Arg), canonInt(in.Arg)
		case "resetseq":
			return !out.Err && out.Val == in.Seq, in.Seq
		case "add":
			if !isInt {
				return out.Err, s
			}
			n := canonInt(iv + in.Arg)
			return !out.Err && out.Val == n, n
		case "add-or-fail":
			if out.Err {
				return true, s
			}
			if !isInt {
				return false, s
			}
			n := canonInt(iv + in.Arg)
			return out.Val == n, n
		case "conj":
			if isInt {
				return out.Err, s
			}
			x := canonInt(in.Arg)
			var n string
			if isVec {
				n = "[" + strings.Join(append(append([]string{}, elems...), x), " ") + "]"
			} else {
				n = "(" + strings.Join(append([]string{x}, elems...), " ") + ")"
			}
			return !out.Err && out.Val == n, n
		case "fail":
			return out.Err, s
		}
		return false, s
	},
	DescribeOperation: func(input, output interface{}) string {
		in, out := input.(opIn), output.(opOut)
		return fmt.Sprintf("%s a%d %d%s -> %s err=%v", in.Kind, in.Atom, in.Arg, in.Seq, out.Val, out.Err)
	},
}

func describe(c Case) string {
	var sb strings.Builder
	for i, th := range c.Threads {
		sb.WriteString(fmt.Sprintf("thread %d:", i))
		for _, o := range th {
			sb.WriteString(" " + o.text())
		}
		sb.WriteString("\n")
	}
	sb.WriteString("schedule:")
	for _, e := range c.Sched {
		switch e.Kind {
		case "start":
			sb.WriteString(fmt.Sprintf(" start(%d)", e.Thread))
		case "release":
			sb.WriteString(fmt.Sprintf(" release(g%d)", e.Gate))
		case "await":
			sb.WriteString(fmt.Sprintf(" await(g%d)", e.Gate))
		case "inline":
			sb.WriteString(" inline[" + e.Op.text() + "]")
		case "cancel":
			sb.WriteString(fmt.Sprintf(" cancel-evaluation-of(%d)", e.Thread))
		case "sleep":
			sb.WriteString(fmt.Sprintf(" sleep(%dms)", e.Ms))
		}
	}
	return sb.String()
}

func histText(h []porcupine.Operation) string {
	var sb strings.Builder
	for _, op := range h {
		in, out := op.Input.(opIn), op.Output.(opOut)
		sb.WriteString(fmt.Sprintf("  client %d: %s a%d %d%s -> %s err=%v  [%d .. %d]\n", op.ClientId, in.Kind, in.Atom, in.Arg, in.Seq, out.Val, out.Err, op.Call, op.Return))
	}
	return sb.String()
}

func check(c Case) pbt.Verdict {
	box.Silence()
	// dry run: the same operations one after the other with open gates must satisfy the sequential model
	{
		r := newRunner(c, true)
		ctx, cancel := context.WithTimeout(context.Background(), 20*time.Second)
		for i, th := range c.Threads {
			for _, o := range th {
				done := make(chan string, 1)
				go func() { done <- r.exec(ctx, i, o) }()
				select {
				case msg := <-done:
					if msg != "" {
						cancel()
						return pbt.Failf("sequential:"+o.Kind, "sequential run: %s\n%s", msg, describe(c))
					}
				case <-time.After(5 * time.Second):
					cancel()
					return pbt.Failf("hang:sequential-"+o.Kind, "%s, run alone with nothing else going on, did not return within 5 s\n%s", o.text(), describe(c))
				}
			}
		}
		cancel()
		if !porcupine.CheckOperations(model, r.hist) {
			return pbt.Failf("sequential:not-the-register-model", "even the sequential run does not follow the register model\n%s\n%s", describe(c), histText(r.hist))
		}
	}
	r := newRunner(c, false)
	ctx, cancel := context.WithCancel(context.Background())
	defer cancel()
	var wg sync.WaitGroup
	var bad atomic.Value
	started := map[int]bool{}
	start := func(i int) {
		if started[i] || i >= len(c.Threads) {
			return
		}
		started[i] = true
		wg.Add(1)
		go func() {
			defer wg.Done()
			for _, o := range c.Threads[i] {
				if msg := r.exec(ctx, i, o); msg != "" {
					bad.Store(msg)
					return
				}
			}
		}()
	}
	overlap := false
	waited := false
	pending := make([]int, nGates)
	for _, e := range c.Sched {
		switch e.Kind {
		case "start":
			start(e.Thread)
		case "await":
			select {
			case <-r.gates[e.Gate].arrive:
				pending[e.Gate]++
				overlap = true
			case <-time.After(30 * time.Millisecond):
			}
		case "release":
			g := r.gates[e.Gate]
			if pending[e.Gate] > 0 {
				pending[e.Gate]--
			} else {
				select {
				case <-g.arrive:
					overlap = true
				case <-time.After(30 * time.Millisecond):
				}
			}
			g.release <- struct{}{}
		case "inline":
			// inline operations are never gated themselves. An implementation may make them wait
			// for an update function that is parked at a gate: that is not a hang, so the schedule
			// goes on after a short wait and the operation only has to finish once all gates are open.
			o := *e.Op
			o.Gate = -1
			wg.Add(1)
			done := make(chan struct{})
			go func() {
				defer wg.Done()
				if msg := r.exec(ctx, len(c.Threads), o); msg != "" {
					bad.Store(msg)
				}
				close(done)
			}()
			select {
			case <-done:
			case <-time.After(150 * time.Millisecond):
				waited = true
			}
		case "cancel":
			if cf, ok := r.cancels.Load(e.Thread); ok {
				cf.(context.CancelFunc)()
			}
		case "sleep":
			time.Sleep(time.Duration(e.Ms) * time.Millisecond)
		}
	}
	for i := range c.Threads {
		start(i)
	}
	for _, g := range r.gates {
		g.open.Store(true)
	}
	finished := make(chan struct{})
	go func() { wg.Wait(); close(finished) }()
	select {
	case <-finished:
	case <-time.After(5 * time.Second):
		return pbt.Failf("hang", "not every thread finished within 5 s after all gates were opened\n%s", describe(c))
	}
	if m := bad.Load(); m != nil {
		return pbt.Failf("operation-failed", "%s\n%s", m, describe(c))
	}
	// the atoms stay usable and the final values close the history
	for i := 0; i < c.Atoms; i++ {
		if msg := r.exec(ctx, len(c.Threads)+1, Op{Kind: "deref", Atom: i, Gate: -1}); msg != "" {
			return pbt.Failf("atom-unusable", "%s\n%s", msg, describe(c))
		}
	}
	res := porcupine.CheckOperationsTimeout(model, r.hist, 20*time.Second)
	if res == porcupine.Illegal {
		return pbt.Failf("not-linearizable", "the recorded history is not linearizable with respect to the register model\n%s\nhistory:\n%s", describe(c), histText(r.hist))
	}
	if res == porcupine.Unknown {
		return pbt.Verdict{Inconclusive: true}
	}
	seen := map[string]bool{}
	for _, s := range r.syms {
		if seen[s] {
			return pbt.Failf("gensym-duplicate", "gensym returned %s twice\n%s", s, describe(c))
		}
		seen[s] = true
	}
	v := pbt.Verdict{Key: describe(c)}
	v.NonTrivial = overlap
	if overlap {
		v.Labels = append(v.Labels, "gated-overlap")
	}
	if waited {
		v.Labels = append(v.Labels, "inline-op-waited-for-parked-update")
	}
	v.Labels = append(v.Labels, fmt.Sprintf("threads:%d", len(c.Threads)))
	return v
}

var P = pbt.Prop[Case]{
	ID:          "C09",
	Gen:         genCase,
	Check:       check,
	ReplayTries: 5,
	Show:        func(c Case) any { return describe(c) },
}

func TestMain(m *testing.M)   { pbt.Main(m) }
func TestProp(t *testing.T)   { pbt.Run(t, P) }
func TestCorpus(t *testing.T) { pbt.Corpus(t, P) }
func TestReplay(t *testing.T) { pbt.Replay(t, P) }
