package c10

import (
	"context"
	"fmt"
	"runtime"
	"strings"
	"sync"
	"sync/atomic"
	"testing"
	"time"

	"github.com/jig/lisp"
	"github.com/jig/lisp/lib/call"
	"github.com/jig/lisp/types"
	"github.com/jig/lisp/verifhook"
	"pgregory.net/rapid"

	"verifharness/internal/box"
	"verifharness/internal/gen"
	"verifharness/internal/pbt"
	"verifharness/internal/val"
)

// Ev: one scheduler step.
type Ev struct {
	Kind   string // start await release sleep
	Thread int    `json:",omitempty"`
	Gate   int    `json:",omitempty"`
	Ms     int    `json:",omitempty"`
}

type Case struct {
	Body     string   // value throw sleep ignore panic
	Hold     []string // verifhook sites at which the implementation is parked until released
	LongPark bool     `json:",omitempty"`
	// the creating evaluation cancels the future at once: (do (def fut (future …)) (future-cancel fut))
	CancelAtCreation bool `json:",omitempty"`
	// seventy other futures of the same program are running (waiting for something) when this one is created
	Crowd   bool       `json:",omitempty"`
	Threads [][]string // ops: deref deref-short done? cancelled? cancel
	Sched   []Ev
}

// gates: 0 = inside the body (ctx-aware), 1 = inside the body (ignores cancellation), 2.. = hook sites
var sites = []string{"future:body-finished-before-publish", "future:published-before-close", "future:cancel-enter", "future:deref-woken"}

const nGates = 6

func bodyText(kind string) string {
	switch kind {
	case "value":
		return "(do (trace! :run) (gate! 0) 42)"
	case "throw":
		return "(do (trace! :run) (gate! 0) (throw {:boom 1}))"
	case "sleep":
		return "(do (trace! :run) (gate! 0) (sleep 20) 7)"
	case "ignore":
		return "(do (trace! :run) (block! 1) 42)"
	case "panic":
		return "(do (trace! :run) (gate! 0) (raw-panic!))"
	case "nested":
		// the outer body starts an inner future (which inherits the outer body's context) and returns it
		// at once; the inner body is the one parked at the gate
		return "(do (trace! :run) (future (do (gate! 0) 7)))"
	case "nil":
		return "(do (trace! :run) (gate! 0) nil)"
	case "nil-sleep":
		return "(do (trace! :run) (gate! 0) (sleep 5))"
	}
	return "nil"
}

func genCase(t *rapid.T) Case {
	c := Case{Body: []string{"value", "value", "throw", "sleep", "ignore", "panic", "nil", "nil-sleep", "nested"}[gen.Uniform(t, "body", 9)]}
	for _, s := range sites {
		if gen.Uniform(t, "hold", 4) == 0 {
			c.Hold = append(c.Hold, s)
		}
	}
	nt := 1 + gen.Uniform(t, "threads", 4)
	ops := []string{"deref", "deref", "deref-short", "deref-cancelled", "done?", "done?", "cancelled?", "cancel"}
	for i := 0; i < nt; i++ {
		n := 1 + gen.Uniform(t, "nops", 4)
		th := []string{}
		for j := 0; j < n; j++ {
			th = append(th, ops[gen.Uniform(t, "op", len(ops))])
		}
		c.Threads = append(c.Threads, th)
	}
	for i := 0; i < nt; i++ {
		c.Sched = append(c.Sched, Ev{Kind: "start", Thread: i})
	}
	bodyGate := 0
	if c.Body == "ignore" {
		bodyGate = 1
	}
	// the body's gate is awaited/released somewhere in the schedule; hook gates too
	c.Sched = append(c.Sched, Ev{Kind: "await", Gate: bodyGate}, Ev{Kind: "release", Gate: bodyGate})
	for i, s := range sites {
		for _, h := range c.Hold {
			if h == s {
				c.Sched = append(c.Sched, Ev{Kind: "await", Gate: 2 + i}, Ev{Kind: "release", Gate: 2 + i})
			}
		}
	}
	for i, n := 0, gen.Uniform(t, "nsleep", 4); i < n; i++ {
		c.Sched = append(c.Sched, Ev{Kind: "sleep", Ms: 1 + gen.Uniform(t, "ms", 5)})
	}
	for i := len(c.Sched) - 1; i > 0; i-- {
		j := gen.Uniform(t, "shuffle", i+1)
		c.Sched[i], c.Sched[j] = c.Sched[j], c.Sched[i]
	}
	c.CancelAtCreation = c.Body != "nested" && c.Body != "ignore" && c.Body != "panic" && gen.Chance(t, "cancelatcreation", 8)
	c.Crowd = !c.CancelAtCreation && gen.Chance(t, "crowd", 10)
	if c.CancelAtCreation {
		// the cancel is issued by the creating evaluation, before the schedule runs: nothing may park it
		kept := c.Hold[:0]
		for _, h := range c.Hold {
			if h != "future:cancel-enter" {
				kept = append(kept, h)
			}
		}
		c.Hold = kept
	}
	endCreatorOneIn := 6
	if c.Body == "ignore" {
		// a body that ignores cancellation is still running after its creator's context has ended: cancels issued
		// then are still cancels of a running future
		endCreatorOneIn = 2
	}
	if gen.Chance(t, "endcreator", endCreatorOneIn) {
		// the context of the evaluation that created the future ends (its host is done with it) at some point
		pos := gen.Uniform(t, "endcreatorat", len(c.Sched)+1)
		c.Sched = append(c.Sched[:pos], append([]Ev{{Kind: "endcreator"}}, c.Sched[pos:]...)...)
	}
	if gen.Chance(t, "longpark", 15) {
		// the body stays parked long after the readers' own contexts have ended: the readers are started
		// first, everything else comes after a long pause
		c.LongPark = true
		front, back := []Ev{}, []Ev{}
		for _, ev := range c.Sched {
			if ev.Kind == "start" {
				front = append(front, ev)
			} else {
				back = append(back, ev)
			}
		}
		c.Sched = append(append(front, Ev{Kind: "sleep", Ms: 350}), back...)
	}
	return c
}

type rec struct {
	client     int
	op         string
	call, ret  int64
	b          bool   // done? cancelled? cancel
	v          val.V  // deref value
	err        string // deref error text ("" = value)
	ownTimeout bool   // deref-short: the caller's own context ended
	ctxEnd     int64  // when the caller's own context ended (0: it did not, or has none)
}

type gate struct {
	arrive  chan struct{}
	release chan struct{}
	open    atomic.Bool
}

func describe(c Case) string {
	var sb strings.Builder
	sb.WriteString("body: " + bodyText(c.Body) + "\n")
	if c.CancelAtCreation {
		sb.WriteString("the creating evaluation cancels the future at once\n")
	}
	if c.Crowd {
		sb.WriteString("seventy other futures are waiting\n")
	}
	if len(c.Hold) > 0 {
		sb.WriteString("implementation parked at: " + strings.Join(c.Hold, ", ") + "\n")
	}
	for i, th := range c.Threads {
		sb.WriteString(fmt.Sprintf("thread %d: %s\n", i, strings.Join(th, " ")))
	}
	sb.WriteString("schedule:")
	for _, e := range c.Sched {
		switch e.Kind {
		case "start":
			sb.WriteString(fmt.Sprintf(" start(%d)", e.Thread))
		case "await":
			sb.WriteString(fmt.Sprintf(" await(g%d)", e.Gate))
		case "release":
			sb.WriteString(fmt.Sprintf(" release(g%d)", e.Gate))
		case "sleep":
			sb.WriteString(fmt.Sprintf(" sleep(%dms)", e.Ms))
		case "endcreator":
			sb.WriteString(" end-of-the-creating-evaluation's-context")
		}
	}
	return sb.String()
}

var hookMu sync.Mutex // one case at a time installs the process-wide hook

func check(c Case) pbt.Verdict {
	box.Silence()
	hookMu.Lock()
	defer hookMu.Unlock()
	e := box.FullEnv()
	tr := box.AddTrace(e)
	gates := make([]*gate, nGates)
	for i := range gates {
		gates[i] = &gate{arrive: make(chan struct{}, 256), release: make(chan struct{}, 256)}
	}
	var sawCancelled atomic.Bool
	var bodyArrived, bodyReleased atomic.Int64 // when the body reached its gate / was let go
	wait := func(ctx context.Context, g *gate, honourCtx bool) error {
		if g.open.Load() {
			return nil
		}
		if g == gates[0] || g == gates[1] {
			bodyArrived.CompareAndSwap(0, time.Now().UnixNano())
		}
		g.arrive <- struct{}{}
		for {
			var done <-chan struct{}
			if honourCtx && ctx != nil {
				done = ctx.Done()
			}
			select {
			case <-g.release:
				return nil
			case <-done:
				sawCancelled.Store(true)
				return fmt.Errorf("gate: the body's context was cancelled")
			case <-time.After(2 * time.Millisecond):
				if g.open.Load() {
					return nil
				}
			}
		}
	}
	call.CallOverrideFN(e, "gate!", func(ctx context.Context, id int) (types.MalType, error) { return nil, wait(ctx, gates[id], true) })
	call.CallOverrideFN(e, "block!", func(ctx context.Context, id int) (types.MalType, error) { return nil, wait(ctx, gates[id], false) })
	e.Set(types.Symbol{Val: "raw-panic!"}, types.Func{Fn: func(ctx context.Context, a []types.MalType) (types.MalType, error) {
		panic(fmt.Errorf("verif: panic on the future's thread"))
	}})
	held := map[string]int{}
	for i, s := range sites {
		for _, h := range c.Hold {
			if h == s {
				held[s] = 2 + i
			}
		}
	}
	verifhook.Set(func(site string) {
		if g, ok := held[site]; ok {
			_ = wait(nil, gates[g], false)
		}
	})
	defer verifhook.Set(nil)

	crowdCh := make(chan struct{})
	defer close(crowdCh)
	call.CallOverrideFN(e, "crowd-wait!", func(ctx context.Context) (types.MalType, error) {
		select {
		case <-crowdCh:
		case <-ctx.Done():
		}
		return nil, nil
	})
	// the context of the evaluation that creates the future stays alive for the whole script
	creatorCtx, creatorCancel := context.WithCancel(context.Background())
	defer creatorCancel()
	if c.Crowd {
		if r := box.ReadEval(creatorCtx, "(def crowd (map (fn (i) (future (crowd-wait!))) (range 0 70)))", e); r.Err != nil || r.Panicked {
			return pbt.Failf("harness:create", "creating the crowd failed: %v %v", r.Err, r.PanicVal)
		}
	}
	creatorEnded := false
	createdCancelled := false
	var creationCancel *rec
	if c.CancelAtCreation {
		// on one processor, so that the cancel comes before the future's goroutine has run at all
		prev := runtime.GOMAXPROCS(1)
		tc0 := time.Now().UnixNano()
		r := box.ReadEval(creatorCtx, "(do (def fut (future "+bodyText(c.Body)+")) (future-cancel fut))", e)
		tc1 := time.Now().UnixNano()
		runtime.GOMAXPROCS(prev)
		creationCancel = &rec{client: 98, op: "cancel", call: tc0, ret: tc1, b: r.Val == true}
		if r.Err != nil || r.Panicked {
			return pbt.Failf("harness:create", "creating the future failed: %v %v", r.Err, r.PanicVal)
		}
		if r.Val != true {
			return pbt.Failf("cancel-false-on-running", "future-cancel, issued by the creating evaluation right after (future …), returned %v although the body cannot have completed (it parks at a gate nobody has released)\n%s", r.Val, describe(c))
		}
		createdCancelled = true
	} else if r := box.ReadEval(creatorCtx, "(def fut (future "+bodyText(c.Body)+"))", e); r.Err != nil || r.Panicked {
		return pbt.Failf("harness:create", "creating the future failed: %v %v", r.Err, r.PanicVal)
	}
	if c.Crowd {
		// the body is evaluated on a thread of its own, however many other futures are waiting for something
		t0 := time.Now()
		for bodyArrived.Load() == 0 && time.Since(t0) < 2*time.Second {
			time.Sleep(time.Millisecond)
		}
		if bodyArrived.Load() == 0 {
			return pbt.Failf("hang:body-not-started-among-many-futures", "two seconds after (future …) the body has not reached its first form, while seventy other futures of the program are waiting\n%s", describe(c))
		}
	}
	var mu sync.Mutex
	hist := []rec{}
	if creationCancel != nil {
		hist = append(hist, *creationCancel) // the first cancel of this future's life
	}
	exec := func(client int, op string) string {
		src := map[string]string{"deref": "@fut", "deref-short": "@fut", "deref-cancelled": "@fut", "done?": "(future-done? fut)", "cancelled?": "(future-cancelled? fut)", "cancel": "(future-cancel fut)"}[op]
		ctx, cancel := context.WithTimeout(context.Background(), 20*time.Second)
		var ctxEnd atomic.Int64
		if op == "deref-short" {
			cancel()
			ctx, cancel = context.WithTimeout(context.Background(), 15*time.Millisecond)
		}
		if op == "deref-cancelled" {
			// a context without any deadline that its owner cancels
			cancel()
			ctx, cancel = context.WithCancel(context.Background())
			c2 := cancel
			tm := time.AfterFunc(15*time.Millisecond, func() { ctxEnd.Store(time.Now().UnixNano()); c2() })
			defer tm.Stop()
		}
		defer cancel()
		ast, err := lisp.READ(src, nil, e)
		if err != nil {
			return err.Error()
		}
		t0 := time.Now().UnixNano()
		res := box.Eval(ctx, ast, e)
		t1 := time.Now().UnixNano()
		if res.Panicked {
			return fmt.Sprintf("%s panicked: %v", src, res.PanicVal)
		}
		r := rec{client: client, op: op, call: t0, ret: t1}
		if strings.HasPrefix(op, "deref") {
			if res.Err != nil {
				r.err = res.Err.Error()
				if ev, ok := box.ErrorValue(res.Err); ok {
					if _, isErr := ev.(error); !isErr {
						r.err = "thrown " + val.Canon(val.From(ev))
					}
				}
				r.ownTimeout = ctx.Err() != nil
			} else {
				r.v = val.From(res.Val)
			}
			switch op {
			case "deref-short":
				r.ctxEnd = t0 + int64(15*time.Millisecond)
			case "deref-cancelled":
				r.ctxEnd = ctxEnd.Load()
			}
		} else {
			if res.Err != nil {
				return fmt.Sprintf("%s failed: %v", src, res.Err)
			}
			b, ok := res.Val.(bool)
			if !ok {
				return fmt.Sprintf("%s returned %T", src, res.Val)
			}
			r.b = b
		}
		mu.Lock()
		hist = append(hist, r)
		mu.Unlock()
		return ""
	}
	var wg sync.WaitGroup
	var bad atomic.Value
	started := map[int]bool{}
	start := func(i int) {
		if started[i] || i >= len(c.Threads) {
			return
		}
		started[i] = true
		wg.Add(1)
		go func() {
			defer wg.Done()
			for _, op := range c.Threads[i] {
				if msg := exec(i, op); msg != "" {
					bad.Store(msg)
					return
				}
			}
		}()
	}
	overlap := false
	pending := make([]int, nGates)
	for _, ev := range c.Sched {
		switch ev.Kind {
		case "start":
			start(ev.Thread)
		case "await":
			select {
			case <-gates[ev.Gate].arrive:
				pending[ev.Gate]++
				overlap = true
			case <-time.After(20 * time.Millisecond):
			}
		case "release":
			if pending[ev.Gate] > 0 {
				pending[ev.Gate]--
			} else {
				select {
				case <-gates[ev.Gate].arrive:
					overlap = true
				case <-time.After(20 * time.Millisecond):
				}
			}
			if ev.Gate <= 1 {
				bodyReleased.CompareAndSwap(0, time.Now().UnixNano())
			}
			gates[ev.Gate].release <- struct{}{}
		case "sleep":
			time.Sleep(time.Duration(ev.Ms) * time.Millisecond)
		case "endcreator":
			// from now on the body is no longer held by the harness alone: its own context is over
			// (a body that ignores cancellation stays parked, and is still running, all the same)
			if c.Body != "ignore" {
				bodyReleased.CompareAndSwap(0, time.Now().UnixNano())
			}
			creatorEnded = true
			creatorCancel()
		}
	}
	for i := range c.Threads {
		start(i)
	}
	bodyReleased.CompareAndSwap(0, time.Now().UnixNano())
	for _, g := range gates {
		g.open.Store(true)
	}
	finished := make(chan struct{})
	go func() { wg.Wait(); close(finished) }()
	select {
	case <-finished:
	case <-time.After(10 * time.Second):
		return pbt.Failf("hang", "not every thread finished within 10 s after all gates were opened\n%s", describe(c))
	}
	if m := bad.Load(); m != nil {
		return pbt.Failf("operation-failed", "%s\n%s", m, describe(c))
	}
	// closing operations by the scheduler: the outcome, then the flags
	for _, op := range []string{"deref", "done?", "cancelled?", "deref", "done?"} {
		if msg := exec(99, op); msg != "" {
			return pbt.Failf("operation-failed", "%s\n%s", msg, describe(c))
		}
	}

	// nested futures: cancelling the completed outer future (answer false) changes nothing, so the inner
	// future, started by the outer body, still delivers its value
	if c.Body == "nested" {
		anyTrue := false
		mu.Lock()
		for _, r := range hist {
			if r.op == "cancel" && r.b {
				anyTrue = true
			}
		}
		mu.Unlock()
		ictx, icancel := context.WithTimeout(context.Background(), 10*time.Second)
		r := box.ReadEval(ictx, "(deref (deref fut))", e)
		icancel()
		if !anyTrue && !creatorEnded { // (the inner future lives under the creating evaluation's context too)
			if r.Panicked || r.Err != nil || r.Val != 7 {
				return pbt.Failf("cancel-of-completed-future-had-an-effect", "no future-cancel returned true, yet the inner future started by the body does not deliver 7: value=%v err=%v\n%s", r.Val, r.Err, describe(c))
			}
		}
	}

	// ---- invariants over the recorded history ----
	fail := func(sig, format string, a ...any) pbt.Verdict {
		var sb strings.Builder
		for _, r := range hist {
			res := fmt.Sprint(r.b)
			if strings.HasPrefix(r.op, "deref") {
				res = val.Canon(r.v)
				if r.err != "" {
					res = "error(" + r.err + ")"
					if r.ownTimeout {
						res += " [caller's own deadline]"
					}
				}
			}
			sb.WriteString(fmt.Sprintf("  client %d %s -> %s  [%d .. %d]\n", r.client, r.op, res, r.call, r.ret))
		}
		return pbt.Failf(sig, "%s\n%s\nhistory:\n%s", fmt.Sprintf(format, a...), describe(c), sb.String())
	}
	runs := 0
	for _, t := range tr.Snapshot() {
		if val.Eq(t, val.K("run")) {
			runs++
		}
	}
	cancelIssued := false
	var firstCancel *rec
	var outcomes []rec
	firstDerefRet := int64(0)
	for i := range hist {
		r := &hist[i]
		if r.op == "cancel" {
			cancelIssued = true
			if firstCancel == nil || r.call < firstCancel.call {
				firstCancel = r
			}
		}
		if strings.HasPrefix(r.op, "deref") && !r.ownTimeout {
			outcomes = append(outcomes, *r)
			if firstDerefRet == 0 || r.ret < firstDerefRet {
				firstDerefRet = r.ret
			}
		}
	}
	// a deref blocks until the outcome is available OR the caller's context ends
	derefWokenHeld := false
	for _, h := range c.Hold {
		if h == "future:deref-woken" {
			derefWokenHeld = true
		}
	}
	for _, r := range hist {
		if r.ctxEnd != 0 && r.ret > r.ctxEnd && !derefWokenHeld {
			if late := time.Duration(r.ret - r.ctxEnd); late > 250*time.Millisecond {
				return fail("hang:deref-outlives-its-context", "a %s returned %v after its caller's own context had ended", r.op, late)
			}
		}
	}
	if createdCancelled {
		cancelIssued = true
		// the body's context was cancelled before the body could pass its gate: it cannot complete normally
		for _, o := range outcomes {
			if o.err == "" {
				return fail("body-context-not-cancelled", "future-cancel returned true right after creation, yet a deref returned the value %s: the body's context was never cancelled", val.Canon(o.v))
			}
		}
		for _, r := range hist {
			if r.op == "cancelled?" && !r.b {
				return fail("cancelled-false-after-cancel", "future-cancel returned true right after creation but a later future-cancelled? is false")
			}
		}
	}
	if runs > 1 {
		return fail("body-ran-more-than-once", "the body ran %d times", runs)
	}
	if runs == 0 && !cancelIssued && !creatorEnded {
		return fail("body-never-ran", "the body never ran although nobody cancelled the future")
	}
	// only future-cancel makes a future cancelled
	if !cancelIssued {
		for _, r := range hist {
			if r.op == "cancelled?" && r.b {
				return fail("cancelled-without-cancel", "future-cancelled? is true although nobody called future-cancel")
			}
		}
	}
	// every reader gets the same outcome
	for i := 1; i < len(outcomes); i++ {
		a, b := outcomes[0], outcomes[i]
		if (a.err == "") != (b.err == "") || (a.err == "" && !val.Eq(a.v, b.v)) || (a.err != "" && a.err != b.err) {
			return fail("readers-disagree", "two derefs returned different outcomes: %s%s vs %s%s", val.Canon(a.v), a.err, val.Canon(b.v), b.err)
		}
	}
	if len(outcomes) > 0 && outcomes[0].err == "" && runs != 1 {
		return fail("value-without-run", "a deref returned a value but the body ran %d times", runs)
	}
	// flags never go back; done? is true once any deref has returned
	for _, flag := range []string{"done?", "cancelled?"} {
		for _, a := range hist {
			if a.op != flag || !a.b {
				continue
			}
			for _, b := range hist {
				if b.op == flag && !b.b && b.call > a.ret {
					return fail("flag-went-back:"+flag, "%s was true and a later call returned false", flag)
				}
			}
		}
	}
	for _, r := range hist {
		if r.op == "done?" && !r.b && firstDerefRet != 0 && r.call > firstDerefRet {
			return fail("done-false-after-deref", "future-done? returned false although a deref of the future had already returned")
		}
	}
	// cancel contract
	for i := range hist {
		r := &hist[i]
		if r.op != "cancel" {
			continue
		}
		earlier := false
		for _, o := range hist {
			if o.op == "cancel" && o.call < r.call && &o != r && !(o.call == r.call && o.ret == r.ret) {
				earlier = true
			}
		}
		if earlier {
			continue
		}
		overlapping := false
		for _, o := range hist {
			if o.op == "cancel" && !(o.call == r.call && o.ret == r.ret) && o.call <= r.ret && o.ret >= r.call {
				overlapping = true
			}
		}
		if overlapping {
			continue
		}
		if firstDerefRet != 0 && r.call > firstDerefRet && len(outcomes) > 0 {
			// completed without having been cancelled
			if r.b {
				return fail("cancel-true-on-completed", "future-cancel returned true on a future that had already delivered its outcome")
			}
			for _, o := range hist {
				if o.op == "cancelled?" && o.b {
					return fail("cancelled-after-completion", "future-cancelled? is true although the future completed before any cancel")
				}
			}
		}
	}
	// a cancel issued and answered while the body was parked at its gate (still running), with no
	// other cancel before or during it, must return true
	// (not for the nested shape: there the gate is reached by the INNER body, the outer one has completed)
	if c.Body != "nested" && firstCancel != nil && bodyArrived.Load() != 0 && firstCancel.call > bodyArrived.Load() && firstCancel.ret < bodyReleased.Load() {
		alone := true
		for _, o := range hist {
			if o.op == "cancel" && !(o.call == firstCancel.call && o.ret == firstCancel.ret) && o.call <= firstCancel.ret {
				alone = false
			}
		}
		if alone && !firstCancel.b {
			return fail("cancel-false-on-running", "future-cancel returned false although the body was still running (parked at its gate)")
		}
		// the body's context is cancelled: a body that polls its context (the gate does, and so does
		// EVAL before every form) cannot complete normally any more
		if alone && firstCancel.b && c.Body != "ignore" && !sawCancelled.Load() && len(outcomes) > 0 && outcomes[0].err == "" {
			return fail("body-context-not-cancelled", "future-cancel returned true while the body was parked, yet the body completed normally with %s: its context was not cancelled", val.Canon(outcomes[0].v))
		}
	}
	// a body that ignores cancellation is still running while it is parked: EVERY future-cancel invoked and answered
	// in that time returns true, not only the first
	if c.Body == "ignore" && bodyArrived.Load() != 0 {
		for _, r := range hist {
			if r.op == "cancel" && r.call > bodyArrived.Load() && r.ret < bodyReleased.Load() && !r.b {
				return fail("cancel-false-on-running", "a future-cancel returned false although the body, which ignores cancellation, was still running (parked at its gate)")
			}
		}
	}
	// a future-done? that returned true before anybody cancelled proves completion: the first cancel
	// after it must return false and must not mark the future cancelled
	if firstCancel != nil {
		provenDone := false
		for _, o := range hist {
			if o.op == "done?" && o.b && o.ret < firstCancel.call {
				provenDone = true
			}
		}
		alone := true
		for _, o := range hist {
			if o.op == "cancel" && !(o.call == firstCancel.call && o.ret == firstCancel.ret) && o.call <= firstCancel.ret {
				alone = false
			}
		}
		if provenDone && alone {
			if firstCancel.b {
				return fail("cancel-true-on-completed", "future-done? had returned true (nobody had cancelled), yet the first future-cancel after it returned true")
			}
			for _, o := range hist {
				if o.op == "cancelled?" && o.b {
					return fail("cancelled-after-completion", "future-cancelled? is true although the future completed before any cancel")
				}
			}
		}
	}
	if firstCancel != nil && firstCancel.b {
		for _, o := range hist {
			if o.op == "cancelled?" && !o.b && o.call > firstCancel.ret {
				return fail("cancelled-false-after-cancel", "future-cancel returned true but a later future-cancelled? is false")
			}
		}
	}
	v := pbt.Verdict{Key: describe(c)}
	v.NonTrivial = overlap || cancelIssued
	v.Labels = append(v.Labels, "body:"+c.Body)
	if cancelIssued {
		v.Labels = append(v.Labels, "cancel-issued")
		if runs == 0 {
			v.Labels = append(v.Labels, "cancel-won-before-body-started")
		}
		if sawCancelled.Load() {
			v.Labels = append(v.Labels, "body-observed-cancellation")
		}
	}
	for _, h := range c.Hold {
		v.Labels = append(v.Labels, "hold:"+h)
	}
	return v
}

var P = pbt.Prop[Case]{
	ID:          "C10",
	Gen:         genCase,
	Check:       check,
	ReplayTries: 5,
	Show:        func(c Case) any { return describe(c) },
}

func TestMain(m *testing.M)   { pbt.Main(m) }
func TestProp(t *testing.T)   { pbt.Run(t, P) }
func TestCorpus(t *testing.T) { pbt.Corpus(t, P) }
func TestReplay(t *testing.T) { pbt.Replay(t, P) }
