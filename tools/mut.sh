#!/bin/bash
# usage: tools/mut.sh <patch.diff> <ID> [tier]   -- applies a patch to /repo, runs the check, reverts.
set -u
patch=$(realpath "$1"); id=$2; tier=${3:-quick}
cd /repo || exit 2
if ! git diff --quiet; then echo "repo dirty"; exit 2; fi
# evidence written while a mutant is applied must never be committed: keep the clean one
ev=/verif/evidence/$id.json; [ -f $ev ] && cp $ev /tmp/evidence-$id.keep
git apply "$patch" || { echo "patch does not apply"; exit 2; }
trap 'git -C /repo checkout -- . ; git -C /repo clean -fdq; [ -f /tmp/evidence-$id.keep ] && mv /tmp/evidence-$id.keep $ev' EXIT
( cd /repo && GOFLAGS=-mod=mod GOPROXY=off go build ./... ) || { echo "MUTANT DOES NOT COMPILE"; exit 2; }
cd /verif && ./check "$id" --tier "$tier" | grep -v '^\s*$' | cut -c1-600 | tail -${MUT_TAIL:-6}
echo "check rc=${PIPESTATUS[0]}"
