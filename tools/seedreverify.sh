#!/bin/bash
# re-confirms an already stored seed (seeded/<ID>-<X>) against the current /repo HEAD
set -u
name=$1; d=/verif/seeded/$name
export GOFLAGS=-mod=mod GOPROXY=off GOSUMDB=off GOTOOLCHAIN=local
wt=/tmp/seedreverify-$name
git -C /repo worktree remove --force $wt 2>/dev/null
git -C /repo worktree add -q --detach $wt HEAD || exit 2
trap 'git -C /repo worktree remove --force $wt; rm -rf $wt' EXIT
cd $wt; res=ok
git apply $d/patch.diff || res=noapply
[ $res = ok ] && { (go build ./... && go build -tags verif ./...) || res=nocompile; }
[ $res = ok ] && { bash /verif/tools/baseline.sh $wt | tail -1 | grep -q "48 of 48" || res=baselinefail; }
if [ $res = ok ]; then
  cp $d/demo_test.go demo_test.go
  go test ${DEMO_TAGS:+-tags $DEMO_TAGS} -vet=off -count=1 -run TestDemo . >/dev/null 2>&1 && res=demo-passes-with-change
  git checkout -- . ; cp $d/demo_test.go demo_test.go
  go test ${DEMO_TAGS:+-tags $DEMO_TAGS} -vet=off -count=1 -run TestDemo . >/dev/null 2>&1 || res=demo-fails-without-change
fi
echo "reverify $name: $res"
