#!/usr/bin/env python3
"""Runs seeded changes (seeded/<ID>-<X>/patch.diff) and own mutants (mutants/<ID>/*.diff) against the quick
check of their property, each in a scratch worktree of /repo (VERIF_REPO), N at a time.
usage: tools/seedrun.py [-j N] [names or property ids…]   (no names: everything; tables are always rewritten
from the stored results)"""
import glob, json, os, queue, subprocess, sys, threading

ROOT = "/verif"
args = sys.argv[1:]
J = 3
if args and args[0] == "-j":
    J = int(args[1])
    args = args[2:]
only = args
ENV = dict(os.environ, GOFLAGS="-mod=mod", GOPROXY="off", GOSUMDB="off", GOTOOLCHAIN="local")


def run(patch, pid, wt):
    subprocess.run(["git", "-C", wt, "checkout", "--", "."])
    subprocess.run(["git", "-C", wt, "clean", "-fdq"])
    a = subprocess.run(["git", "-C", wt, "apply", patch], stdout=subprocess.PIPE, stderr=subprocess.STDOUT, text=True)
    if a.returncode != 0:
        return "patch-does-not-apply", a.stdout.strip()[:200]
    b = subprocess.run("go build ./...", shell=True, cwd=wt, env=ENV, stdout=subprocess.PIPE, stderr=subprocess.STDOUT, text=True)
    if b.returncode != 0:
        return "does-not-compile", b.stdout[:200]
    p = subprocess.run(["./check", pid, "--tier", "quick"], cwd=ROOT, env=dict(ENV, VERIF_REPO=wt), stdout=subprocess.PIPE,
                       stderr=subprocess.STDOUT, text=True, errors="replace")
    lines = [l for l in p.stdout.splitlines() if l.startswith("failure [")]
    first = lines[0][:300] if lines else ""
    status = {0: "NOT DETECTED", 1: "detected", 2: "infrastructure"}.get(p.returncode, str(p.returncode))
    if status == "infrastructure":
        first = " ".join(l for l in p.stdout.splitlines() if l.startswith("infra:"))[:300]
    return status, first


jobs = []
for d in sorted(glob.glob(os.path.join(ROOT, "seeded", "*-*"))):
    name = os.path.basename(d)
    if only and name.split("-")[0] not in only and name not in only:
        continue
    jobs.append(("seed", name, os.path.join(d, "patch.diff"), name.split("-")[0]))
for pth in sorted(glob.glob(os.path.join(ROOT, "mutants", "*", "*.diff"))):
    pid = os.path.basename(os.path.dirname(pth))
    if only and pid not in only:
        continue
    jobs.append(("mutant", pid + "/" + os.path.basename(pth), pth, pid))

q = queue.Queue()
for j in jobs:
    q.put(j)
results = {}
lock = threading.Lock()


def worker(k):
    wt = "/tmp/seedrun-wt-%d" % k
    subprocess.run(["git", "-C", "/repo", "worktree", "remove", "--force", wt], stdout=subprocess.DEVNULL, stderr=subprocess.DEVNULL)
    subprocess.run(["git", "-C", "/repo", "worktree", "add", "-q", "--detach", wt, "HEAD"], check=True)
    try:
        while True:
            try:
                kind, name, patch, pid = q.get_nowait()
            except queue.Empty:
                return
            status, first = run(patch, pid, wt)
            with lock:
                results[(kind, name)] = (status, first)
                print(kind, name, status, first[:120], flush=True)
    finally:
        subprocess.run(["git", "-C", "/repo", "worktree", "remove", "--force", wt])


ts = [threading.Thread(target=worker, args=(k,)) for k in range(J)]
for t in ts:
    t.start()
for t in ts:
    t.join()

for (kind, name), (status, first) in results.items():
    if kind != "seed":
        continue
    d = os.path.join(ROOT, "seeded", name)
    am = {}
    try:
        am = json.load(open(os.path.join(d, "agent_meta.json")))
    except Exception:
        pass
    pid = name.split("-")[0]
    meta = {"property": pid, "title": am.get("title", ""), "what_changed": am.get("what_changed", ""),
            "needs_to_manifest": am.get("needs_to_manifest", ""),
            "confirmed": "tools/seedverify.sh: patch applies to a scratch worktree of /repo HEAD, builds (also -tags verif), baseline 48 of 48, demo_test.go fails with the patch and passes without it",
            "check_run": "patch applied to a scratch worktree of /repo HEAD (equivalent to: git -C /repo apply patch.diff; ./check %s --tier quick; git -C /repo checkout -- .)" % pid,
            "result": status, "first_failure": first}
    json.dump(meta, open(os.path.join(d, "meta.json"), "w"), indent=1, ensure_ascii=False)
mres_path = os.path.join(ROOT, "mutants", "results.json")
mres = json.load(open(mres_path)) if os.path.exists(mres_path) else {}
for (kind, name), (status, first) in results.items():
    if kind == "mutant":
        mres[name] = (status, first[:200])
mres = {k: v for k, v in mres.items() if os.path.exists(os.path.join(ROOT, "mutants", k))}
json.dump(mres, open(mres_path, "w"), indent=1, ensure_ascii=False)

rows = []
for d in sorted(glob.glob(os.path.join(ROOT, "seeded", "*-*"))):
    try:
        m = json.load(open(d + "/meta.json"))
    except Exception:
        continue
    rows.append((os.path.basename(d), m["result"], m["first_failure"], m.get("needs_to_manifest", "")))
with open(os.path.join(ROOT, "seeded", "RESULTS.md"), "w") as f:
    f.write("# Seeded changes (written by independent sub-agents that saw only the property text) vs the quick checks\n\n"
            "Round 1: <ID>-A, <ID>-B. Rounds 2, 3, 4 (agents were told all earlier ideas and asked for different ones that need something rarer): "
            "<ID>-C/-D, <ID>-E/-F, <ID>-G/-H.\n"
            "Each was confirmed by tools/seedverify.sh (applies to a scratch worktree, builds with and without the verif tag, "
            "baseline 48 of 48, demo fails with / passes without the change) and then run against ./check <ID> --tier quick.\n\n"
            "| seed | result | first failure reported | needs (agent's words) |\n|---|---|---|---|\n")
    for n, s_, fl, nd in rows:
        f.write("| %s | %s | %s | %s |\n" % (n, s_, fl.replace("|", "\\|")[:160], nd.replace("|", "\\|").replace("\n", " ")[:220]))
with open(os.path.join(ROOT, "mutants", "RESULTS.md"), "w") as f:
    f.write("# Own sensitivity mutants (incl. the reverse of every fix: commit) vs the quick checks\n\n"
            "Run as: tools/mut.sh mutants/<ID>/<name>.diff <ID>\n\n| mutant | result | first failure reported |\n|---|---|---|\n")
    for k in sorted(mres):
        f.write("| %s | %s | %s |\n" % (k, mres[k][0], mres[k][1].replace("|", "\\|")))
bad = [(k, v) for k, v in results.items() if v[0] != "detected"]
print("not detected / problems:", bad)
