#!/usr/bin/env python3
"""Runs every seeded change (seeded/<ID>-<X>/patch.diff) and every own mutant (mutants/<ID>/*.diff)
against the quick check of its property; writes seeded/<ID>-<X>/meta.json, seeded/RESULTS.md, mutants/RESULTS.md."""
import glob, json, os, re, subprocess, sys
ROOT = "/verif"
only = sys.argv[1:] 

def run(patch, pid):
    ev = os.path.join(ROOT, "evidence", pid + ".json")
    keep = open(ev).read() if os.path.exists(ev) else None
    subprocess.run(["git", "-C", "/repo", "checkout", "--", "."])
    a = subprocess.run(["git", "-C", "/repo", "apply", patch], stdout=subprocess.PIPE, stderr=subprocess.STDOUT, text=True)
    if a.returncode != 0:
        return "patch-does-not-apply", a.stdout.strip()[:200]
    try:
        b = subprocess.run("cd /repo && GOFLAGS=-mod=mod GOPROXY=off go build ./...", shell=True, stdout=subprocess.PIPE, stderr=subprocess.STDOUT, text=True)
        if b.returncode != 0:
            return "does-not-compile", b.stdout[:200]
        p = subprocess.run(["./check", pid, "--tier", "quick"], cwd=ROOT, stdout=subprocess.PIPE, stderr=subprocess.STDOUT, text=True, errors="replace")
        lines = [l for l in p.stdout.splitlines() if l.startswith("failure [")]
        first = lines[0][:300] if lines else ""
        status = {0: "NOT DETECTED", 1: "detected", 2: "infrastructure"}.get(p.returncode, str(p.returncode))
        return status, first
    finally:
        subprocess.run(["git", "-C", "/repo", "checkout", "--", "."])
        subprocess.run(["git", "-C", "/repo", "clean", "-fdq"])
        if keep is not None:
            open(ev, "w").write(keep)

rows = []
for d in sorted(glob.glob(os.path.join(ROOT, "seeded", "*-*"))):
    name = os.path.basename(d)
    pid = name.split("-")[0]
    if only and pid not in only and name not in only:
        continue
    status, first = run(os.path.join(d, "patch.diff"), pid)
    am = {}
    try:
        am = json.load(open(os.path.join(d, "agent_meta.json")))
    except Exception:
        pass
    meta = {"property": pid, "title": am.get("title", ""), "what_changed": am.get("what_changed", ""),
            "needs_to_manifest": am.get("needs_to_manifest", ""),
            "confirmed": "tools/seedverify.sh: patch applies to a scratch worktree of /repo HEAD, builds (also -tags verif), baseline 48 of 48, demo_test.go fails with the patch and passes without it",
            "check_run": "git -C /repo apply patch.diff; ./check %s --tier quick; git -C /repo checkout -- ." % pid,
            "result": status, "first_failure": first}
    json.dump(meta, open(os.path.join(d, "meta.json"), "w"), indent=1, ensure_ascii=False)
    rows.append((name, status, first))
    print(name, status, first[:120], flush=True)
if rows and not only:
    with open(os.path.join(ROOT, "seeded", "RESULTS.md"), "w") as f:
        f.write("# Seeded changes (written by independent sub-agents) vs the quick checks\n\n| seed | result | first failure reported |\n|---|---|---|\n")
        for n, s, fl in rows:
            f.write("| %s | %s | %s |\n" % (n, s, fl.replace("|", "\\|")[:200]))
mrows = []
for pth in sorted(glob.glob(os.path.join(ROOT, "mutants", "*", "*.diff"))):
    pid = os.path.basename(os.path.dirname(pth))
    if only and pid not in only:
        continue
    status, first = run(pth, pid)
    mrows.append((pid + "/" + os.path.basename(pth), status, first))
    print("mutant", pid, os.path.basename(pth), status, first[:120], flush=True)
if mrows and not only:
    with open(os.path.join(ROOT, "mutants", "RESULTS.md"), "w") as f:
        f.write("# Own sensitivity mutants (incl. reverts of every fix: commit) vs the quick checks\n\n| mutant | result | first failure reported |\n|---|---|---|\n")
        for n, s, fl in mrows:
            f.write("| %s | %s | %s |\n" % (n, s, fl.replace("|", "\\|")[:200]))
