#!/bin/bash
# Runs the repository's baseline suite (guard off) in DIR (default /repo) and prints the named tests that pass,
# then compares with BASELINE.json's stable_pass list.
dir=${1:-/repo}
cd "$dir" || exit 2
export GOFLAGS=-mod=mod GOPROXY=off GOSUMDB=off GOTOOLCHAIN=local
go test -json -vet=off -count=1 -timeout 25m ./... 2>/dev/null | python3 -c '
import sys, json
passed=set()
for line in sys.stdin:
    try: e=json.loads(line)
    except ValueError: continue
    if e.get("Action")=="pass" and e.get("Test"):
        passed.add(e["Package"]+"::"+e["Test"])
base=set(json.load(open("/root/.vp/BASELINE.json"))["stable_pass"])
missing=sorted(base-passed)
print("baseline tests passing: %d of %d" % (len(base&passed), len(base)))
for m in missing: print("MISSING", m)
sys.exit(1 if missing else 0)
'
