#!/bin/bash
# usage: tools/runall.sh [quick|thorough] [ids...]  -- runs the checks on the current tree, one line per check
tier=${1:-quick}; shift
ids="$@"; [ -z "$ids" ] && ids=$(python3 -c "import json;print(' '.join(k for k,v in json.load(open('/verif/props.json')).items() if v.get('claimed')))")
cd "$(dirname "$0")/.."; rc=0
for id in $ids; do
  out=$(./check $id --tier $tier 2>&1); r=$?
  echo "$id rc=$r $(echo "$out" | grep -a '^property=' | tail -1)"
  if [ $r -ne 0 ]; then echo "$out" | grep -av '^property=' | head -8; rc=1; fi
done
exit $rc
