#!/bin/bash
# usage: tools/seedverify.sh <ID> <X>   (deliverables in /tmp/seed/<ID>.out/<X>.*)
# Confirms the seeded change independently in a scratch worktree, stores it under seeded/<ID>-<X>/.
set -u
id=$1; x=$2; out=${SEED_DIR:-/tmp/seed}/$id.out
export GOFLAGS=-mod=mod GOPROXY=off GOSUMDB=off GOTOOLCHAIN=local
wt=/tmp/seedverify-$id-$x
git -C /repo worktree remove --force $wt 2>/dev/null
git -C /repo worktree add -q --detach $wt HEAD || exit 2
cleanup() { git -C /repo worktree remove --force $wt; rm -rf $wt; }
trap cleanup EXIT
cd $wt
res=ok
git apply $out/$x.patch.diff || { echo "PATCH DOES NOT APPLY to current HEAD"; res=noapply; }
if [ $res = ok ]; then
  (go build ./... && go build -tags verif ./...) || { echo "does not compile"; res=nocompile; }
fi
if [ $res = ok ]; then
  bash /verif/tools/baseline.sh $wt | tail -3 | tee /tmp/seedverify.$id.base
  grep -q "48 of 48" /tmp/seedverify.$id.base || res=baselinefail
fi
if [ $res = ok ]; then
  cp $out/$x.demo_test.go demo_test.go
  if go test ${DEMO_TAGS:+-tags $DEMO_TAGS} -vet=off -count=1 -run TestDemo . >/tmp/seedverify.$id.demo1 2>&1; then echo "demo PASSES with the change (should fail)"; res=demonotfail; fi
  git checkout -- . ; git clean -fdq -e demo_test.go
  cp $out/$x.demo_test.go demo_test.go
  if ! go test ${DEMO_TAGS:+-tags $DEMO_TAGS} -vet=off -count=1 -run TestDemo . >/tmp/seedverify.$id.demo2 2>&1; then echo "demo FAILS without the change (should pass)"; tail -5 /tmp/seedverify.$id.demo2; res=demonotpass; fi
  rm -f demo_test.go
fi
echo "seedverify $id $x: $res"
if [ $res = ok ]; then
  d=/verif/seeded/$id-${SEED_NAME:-$x}; mkdir -p $d
  cp $out/$x.patch.diff $d/patch.diff; cp $out/$x.demo_test.go $d/demo_test.go
  cp $out/$x.meta.json $d/agent_meta.json
fi
[ $res = ok ]
