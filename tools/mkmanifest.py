#!/usr/bin/env python3
"""Regenerates MANIFEST.json from props.json (the single source of per-property configuration)."""
import json, os, subprocess
ROOT = os.path.dirname(os.path.dirname(os.path.abspath(__file__)))
cfg = json.load(open(os.path.join(ROOT, "props.json")))
ids = [json.loads(l)["id"] for l in open(os.path.join(ROOT, "properties.jsonl"))]
hooks = subprocess.run(["git", "-C", "/repo", "log", "--format=%h %s"], stdout=subprocess.PIPE, text=True).stdout.splitlines()
hook_commits = [l.split()[0] for l in hooks if l.split(" ", 1)[1].startswith("verif hooks")]
GO = "GOFLAGS=-mod=mod GOPROXY=off GOSUMDB=off GOTOOLCHAIN=local"
m = {
 "version": 1,
 "setup_cmd": "cd /verif/harness && %s go build ./... && %s go test -tags verif -vet=off -count=1 -run '^$' ./... >/dev/null && %s go test -race -tags verif -vet=off -count=1 -run '^$' ./props/c09 ./props/c10 ./props/c11 >/dev/null" % (GO, GO, GO),
 "hooks": {
  "guard": "verif",
  "enable": "go test -c -tags verif from /verif/harness, whose go.mod replaces github.com/jig/lisp by /repo (the working tree)",
  "baseline_off_cmd": "cd /repo && go test -json -vet=off -count=1 -timeout 25m ./...",
  "source_commits": hook_commits,
  "add_only": True,
 },
 "engines": [
  {"name": "rapid", "path": "harness/", "serves_properties": [i for i in ids if cfg.get(i, {}).get("claimed")],
   "kind_free_text": "pgregory.net/rapid v1.3.0 (random generation, shrinking, stateful mode) driven by ./check: corpus replay, bounded-exhaustive enumerators, parallel shards, failure re-check without rapid, evidence"},
  {"name": "go-native-fuzz", "path": "harness/props/*/fuzz_test.go", "serves_properties": [i for i in ids if cfg.get(i, {}).get("fuzz")],
   "kind_free_text": "go test -fuzz coverage-guided byte-level targets (thorough tier only) with the semantic oracle inside the target"},
 ],
 "checks": [],
 "not_applicable": [],
 "notes": "All checks: ./check <ID> --tier quick|thorough; VERIF_SEED selects the rapid seeds; exit 2 = infrastructure (never a verdict). known_findings.json lists repaired (fixed:) and recorded (known) defects.",
}
for i in ids:
    c = cfg.get(i)
    if not c or not c.get("claimed"):
        m["not_applicable"].append({"property_id": i, "reason": (c or {}).get("na_reason", "check not built yet in this session (work in progress, see DESIGN.md section 4)")})
        continue
    m["checks"].append({
        "property_id": i,
        "quick_cmd": "./check %s --tier quick" % i,
        "thorough_cmd": "./check %s --tier thorough" % i,
        "evidence_file": "/verif/evidence/%s.json" % i,
        "replay_cmd_template": "./check %s --replay {path}" % i,
        "engine": "rapid",
        "level_claimed": {"category": c.get("level", "exploration"), "text": c["level_text"], "design_ref": "DESIGN.md section 4, " + i},
        "level_note": c["level_note"],
        "technique": c["technique"],
    })
json.dump(m, open(os.path.join(ROOT, "MANIFEST.json"), "w"), indent=1, ensure_ascii=False)
print("claimed:", [c["property_id"] for c in m["checks"]])
