#!/usr/bin/env python3
"""Writes the task texts for a round of independent seeded changes.
usage: tools/seedprompts.py <scratch dir, e.g. /tmp/seed9> <ID>…
Each <dir>/<ID>.prompt holds only the property's text (from properties.jsonl) and the titles of the changes of
earlier rounds (so that a new one differs); nothing else from /verif. Hand it to a fresh sub-agent
("Read <dir>/<ID>.prompt and do exactly what it says"); deliverables arrive in <dir>/<ID>.out/A.*, then
  SEED_DIR=<dir> SEED_NAME=<letter> tools/seedverify.sh <ID> A ; python3 tools/seedrun.py <ID>-<letter>"""
import glob, json, os, shutil, sys

d, ids = sys.argv[1], sys.argv[2:]
os.makedirs(d, exist_ok=True)
shutil.copy("/verif/tools/baseline.sh", os.path.join(d, "baseline.sh"))
props = {json.loads(l)["id"]: json.loads(l) for l in open("/verif/properties.jsonl")}
for pid in ids:
    p = props[pid]
    titles = []
    for f in sorted(glob.glob("/verif/seeded/%s-*/agent_meta.json" % pid)):
        try:
            titles.append(json.load(open(f)).get("title", ""))
        except Exception:
            pass
    os.makedirs("%s/%s.out" % (d, pid), exist_ok=True)
    txt = f"""You are testing how well a Go project's properties can be broken subtly. Work ONLY in your own scratch git worktree; never touch /repo's working tree and never read anything under /verif. Never use pkill/killall (other people's processes match).

Setup (run first):
  export GOFLAGS=-mod=mod GOPROXY=off GOSUMDB=off GOTOOLCHAIN=local
  git -C /repo worktree add --detach {d}/{pid} HEAD
  cd {d}/{pid}
There is no network. The project is jig/lisp, a small Go tree-walking Lisp interpreter derived from kanaka/mal (package lisp at the root: mal.go; subpackages reader, printer, types, env, lib/..., debugger...).

The property (given, fixed):
  id: {pid}
  title: {p['title']}
  statement: {p['statement']}
  quantifier: {p['quantifier']['text']}

Task: produce ONE change to jig/lisp (non-test Go source only) that breaks this property while the project still compiles (`go build ./... && go build -tags verif ./...`) and the existing pinned test suite still passes (`bash {d}/baseline.sh {d}/{pid}` must print 'baseline tests passing: 48 of 48'; takes ~1-2 minutes). The change must look like a plausible refactor/optimisation/bug a maintainer could make, and must need something SPECIFIC to manifest (a particular interleaving, a crash or fault at a particular point, a multi-step sequence of operations, an unusual input, or two cooperating sites that each look fine alone) - not something ordinary use would expose at once.

It must be DIFFERENT from these changes that were already made in earlier rounds:
""" + "\n".join("  - " + t for t in titles if t) + f"""

Deliverables (write exactly these files):
  {d}/{pid}.out/A.patch.diff     - `git diff` of your change against HEAD (must apply with `git apply` at the worktree root)
  {d}/{pid}.out/A.demo_test.go   - a Go test file in package lisp (or lisp_test) placed at the repository root as demo_test.go, whose tests are all named TestDemo..., that FAILS with your change and PASSES without it (`go test -vet=off -count=1 -run TestDemo .`). It must be deterministic enough to fail every time with the change.
  {d}/{pid}.out/A.meta.json      - JSON with keys: property, title (one sentence describing the change), what_changed, needs_to_manifest, files (list), verified (the commands you ran and what they showed)

Verify all of it yourself: patch applied -> builds, baseline 48 of 48, demo fails; `git checkout -- .` -> demo passes. When finished leave the worktree clean (git checkout -- . ; remove demo_test.go). Keep the change small, and run the baseline only once. Reply with a two-line summary.
"""
    open("%s/%s.prompt" % (d, pid), "w").write(txt)
    print("%s/%s.prompt" % (d, pid))
